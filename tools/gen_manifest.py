#!/usr/bin/env python3
"""regenerates MANIFEST.json from the table below (run after adding a property module)"""
import json, os
HERE = os.path.dirname(os.path.dirname(os.path.abspath(__file__)))
TECH = 'bounded symbolic execution of the translated real source on z3 proxies; SMT (z3) decides pc & ~property per path'
CLAIMED = {
    # id: (level text, level note, design ref, technique)
    'C02': ('Every feasible path of the real add_gaussian_line and add_lorentzian_line (translated from /repo at run time) is '
            'explored for bins<=4/3 (quick) / <=8/6 (thorough) with all other inputs symbolic reals; z3 decides per path that each bin '
            'receives the bin-average of the normalised profile (Gaussian: erf differences; Lorentzian: radiance*INT(bin)/delta over '
            'exactly the bins meeting the +-50 FWHM truncation), zero-width lines add nothing and the kept fraction reaches 1-4e-12 '
            'when the window spans the line. Each of GaussianLine, MultipletLineShape, ZeemanTriplet, ParametrisedZeemanTriplet, '
            'ZeemanMultiplet, StarkBroadenedLine and BeamEmissionMultiplet is executed on a symbolic plasma point (B vector any / exactly '
            'zero, all three polarisations) with recording kernels: z3 (QF_NRA) decides that components sum to the radiance, carry the '
            '(1/2)sin^2 / (1/4)sin^2+(1/2)cos^2 weights and multiplet / structure / MSE ratios, sit at the documented wavelengths and '
            'widths, that pi + sigma = unpolarised component-wise and that a line without width adds nothing. ZeemanStructure.evaluate '
            'renormalisation, doppler_shift, thermal_broadening and the StarkFunction scaling law are separate harnesses. Bounded, not a proof.',
            'erf / pow / INT are uninterpreted (+ lemma schemas: monotone, odd, bounds, erfc(5)<2e-12), sqrt is a root variable; doubles are '
            'exact reals; raysect Spectrum / vectors replaced by a model; Lorentzian quadrature accuracy, the Olivero FWHM and weight '
            'polynomials (only w_g + w_l = 1 is used) and the hyp2f1 constant (compared concretely) are outside; translator validated '
            'against the compiled module on every run.',
            'DESIGN.md §3 / Appendix A C02', TECH),
}
CLAIMED['C20'] = (
    'generate_derivative_operators is executed from source on object arrays for every grid shape 2x2..3x3 (quick) / ..5x4 '
    '(thorough) with symbolic origin, dx, dy and polynomial coefficients; z3 (QF_NRA) decides per cell that constants are '
    'annihilated, Dx/Dy are exact on linear, Dxy on bilinear, Dxx/Dyy on quadratic fields (interior). calculate_admt is '
    'executed on one generic cell with abstract constant-annihilating operator rows and its five coefficients are '
    'compared with div(D grad f) in cylindrical geometry derived at run time by sympy; anisotropy=1 => Laplacian.',
    'grid shapes are enumerated (stated), all continuous quantities are solver-quantified; doubles as exact reals; '
    'numpy object arrays carry the proxies through numpy\'s own @, mean, diff, diag.',
    'DESIGN.md §3 / Appendix A C20', TECH)
CLAIMED['C09'] = (
    'ionisation_balance.py is executed from source on object arrays. balance_point: for Z<=4 (quick) / <=10 (thorough), '
    'with and without CX donor, every entry of the assembled system is compared with the documented rate equations, an '
    'exact solution inside the (0,n_e) box is exhibited and verified by the solver, and from the lsq_linear contract '
    '(zero residual inside the box) z3 proves fractions in [0,1], sum 1 and the neighbour balance. entry_points: the '
    'public entry points (scalar / array / Function1D / Function2D inputs, with / without donor) are run with the point '
    'solver replaced by an uninterpreted function of its arguments and shown to forward n_e, t_e, n_D and the CX table '
    'consistently, to multiply by the element density, and to match neutrality as documented.',
    'scipy lsq_linear by contract; rates are positive symbols; Z and profile length are concrete per job (stated bounds); '
    'interpolators / map3d beyond node values are outside the claim.',
    'DESIGN.md §3 / Appendix A C09', TECH)
CLAIMED['C11'] = (
    'invert_sart / invert_constrained_sart (translated from sart.pyx) are executed for all m x n x iterations shapes up to '
    '2x2x1, 1x2x2, 2x1x2, 1x1x3 (quick; 2x2x2, 3x2, 2x3, x3 thorough) with weights >= 0 (zero rows / columns included), '
    'measurements, initial guess, relaxation, beta, Laplacian and tolerance symbolic; per path z3 proves the result equals '
    'the documented update rule applied k times with clipping, is non-negative, the convergence entries and stopping rule '
    'are as documented, and an exact non-negative solution is a fixed point. The NNLS / LSTSQ / SVD wrappers are executed '
    'from source against the library contracts (KKT, normal equations, Moore-Penrose) and shown to return a minimiser of '
    '|Wx-b|^2 + alpha^2|Lx|^2 with a consistent reported norm.',
    'scipy nnls / numpy lstsq / scipy pinv by contract (nnls stated on the max(b)-rescaled system: argmin invariant under '
    'positive rescaling is a stated lemma); shapes concrete per job; SVD only for shapes with one dimension = 1 (2x2 '
    'Moore-Penrose reasoning is beyond z3 NRA within the budget).',
    'DESIGN.md §3 / Appendix A C11', TECH)
CLAIMED['C19'] = (
    'The registry is extracted by executing the translated elements.pyx; its tables become if-then-else terms over solver '
    'index variables and z3 decides, exhaustively over all entries, name/symbol uniqueness, periodic-table agreement, '
    'isotope consistency and that every identifier key of the index the code built maps back to its own object. '
    'lookup_element / lookup_isotope are executed for every entry and identifier kind with the letter case of every '
    'character a solver boolean (all 2^n spellings). Element/Isotope/Line equality and hashing are executed with fully '
    'symbolic fields: eq <=> all fields equal, ne complementary, equal objects hash equal field tuples.',
    'string equality inside the table is interned to integers; registry entries are enumerated by forking on the index '
    'variable (finite, complete); hash() kept structural.',
    'DESIGN.md §3 / Appendix A C19', TECH)
CLAIMED['C15'] = (
    'One CrossHair contract per (group class, group-level attribute) is generated from the real classes\' own property '
    'lists and checked with symbolic group size (0..3 / 0..4), value kind, scalar and List[int] (len <=4 / <=5): scalar '
    'reaches every member, a sequence of group length is assigned element-wise, any other length raises ValueError and '
    'changes nothing, the getter returns the members\' values in order, and every documented attribute has a working '
    'setter bound to its own name. Further contracts: index / slice / unique-name lookup, parent is the group, observers of '
    'another group\'s type and non-observers rejected by add_observer, the constructor and the observers setter, observe() observes each member once. "Confirmed over all paths" is required.',
    'members are Python subclasses of the real raysect observers with the broadcast attributes shadowed by plain storage; '
    'classes x attributes enumerated from the code (stated), sizes and values decided by CrossHair/z3; BolometerCamera '
    '(no broadcast attributes, needs full foil/slit geometry) and the ndarray value kind are outside the claim.',
    'DESIGN.md §3 / Appendix A C15', 'CrossHair 0.0.110: symbolic execution of the real Python classes with z3, generated PEP316 contracts')
CLAIMED['C13'] = (
    'Every wrapper class (IsoMapper2D/3D, Swizzle2D, Swizzle3D for all 27 shapes, Slice2D/3D for every axis selector, '
    'AxisymmetricMapper, VectorAxisymmetricMapper, ClampInput/Output 1-3D, CylindricalTransform, VectorCylindricalTransform, '
    'the six periodic transforms) is executed (translated source) with the wrapped function a recording uninterpreted '
    'function and symbolic real arguments; z3 proves the wrapped function received exactly the mathematically mapped '
    'argument and the result is the mapped value (vectors rotated by the toroidal angle). The periodic kernel remainder() '
    'is additionally decided in IEEE-754 double mode (z3 Float64) for every finite x and positive period: result in '
    '[0, period). All samplers are executed for sample counts <=3 (quick) / <=4 (thorough) per axis with symbolic ranges: '
    'entry [i,j,k] is the function at (x_i,y_j,z_k) on the evenly spaced grid including both end points. PolygonMask2D is executed on '
    'convex n-gons (n <= 4 quick, <= 6 thorough) and on quadrilaterals with one symbolic, possibly reflex, vertex: z3 proves mask == '
    'point-in-polygon (crossing-number rule) for every point off the boundary.',
    'fmod in double mode by its C99 contract; sqrt/atan2 by defining equations; numpy.linspace modelled; PolygonMask2D on convex n-gons and quadrilaterals with one symbolic (possibly reflex) vertex, triangulate2d / Discrete2DMesh by contract; larger non-convex polygons not '
    'claimed (pure delegation to raysect triangulation).',
    'DESIGN.md §3 / Appendix A C13', TECH + '; z3 Float64 for the periodic kernel')
CLAIMED['C18'] = (
    'The four laser profiles (translated) are constructed with all parameters symbolic; z3 proves the energy density at a '
    'symbolic point equals E/(c tau) times the product of normal pdfs with the documented widths (uniform: the given '
    'density), that the generated segments tile [0, length] exactly once (<=4 segments), and - one-step induction with a '
    'freshly constructed object as invariant - that after any single setter with a symbolic value the energy density, '
    'polarisation, geometry and reported parameters equal those of a fresh object. ConstantSpectrum / GaussianSpectrum: '
    'per-bin power equals the integral of the density over the bin (erf form), accessors return what they are named '
    'after, same one-step setter induction. The bin-edge computation is additionally decided in IEEE-754 double mode '
    '(every bin edge handed to the density lies inside [min,max]).',
    'exp/erf uninterpreted with lemma schemas; the Gaussian integral = 1 is a stated lemma; bins concrete per job; the '
    'double-mode unsat proofs are reported as inconclusive-FP when the solver does not finish (never as success).',
    'DESIGN.md §3 / Appendix A C18', TECH + '; z3 Float64 for the bin edges')
CLAIMED['C16'] = (
    'Spectrometer, CzernyTurnerSpectrometer, Polychromator / TrapezoidalFilter are executed from source on object arrays: '
    'for symbolic monotone pixel-edge arrays (layouts up to 1+2 pixels quick / 3 spectra thorough), filters and bin '
    'factors z3 proves the spectral range covers every pixel / filter, (max-min)/bins <= narrowest pixel / '
    'min_bins_per_pixel, pixel centres, that calibrate() returns value*width == Spectrum.integrate over each pixel and '
    'raises iff the spectrum is narrower; and - one-step induction, freshly constructed instrument as invariant, caches '
    'filled - that after any single setter every observable (range, bins, pixel arrays, pipeline classes / kwargs / created '
    'pipelines) equals that of an instrument built directly with the final parameters.',
    'Spectrum.integrate is an uninterpreted function; InterpolatedSF a recording stub; pixel counts concrete per job; '
    'sequences of setters are covered by induction over single setters from a fresh-equivalent state.',
    'DESIGN.md §3 / Appendix A C16', TECH)
CLAIMED['C06'] = (
    'All add_/get_ functions of the 14 repository sections are executed from source on an in-memory store with symbolic '
    'keys: element symbols, transition levels and the repository path are z3 strings (carried through the real string '
    'formatting code as marker strings), charges / metastables z3 integers, tables opaque tagged values. File and JSON-key '
    'lookups are decided by the solver on the location terms (z3, cvc5 as second solver). Proved per family: read-back of '
    'what was written; last write wins with keys compared by lower-cased form; a key differing in any one component (an isotope vs. its parent element included) is '
    'never found and writing it leaves the first key untouched; reading through any other family raises RuntimeError; with '
    'two unconstrained keys a read succeeds only if all components are equal; every written path has the passed '
    'repository path as prefix (None -> default); an update rejected for an invalid charge writes nothing. The 11 '
    'install_adf* front-ends and install_files route to the right update_* with repository_path forwarded.',
    'symbols alphanumeric after lower-casing, levels without - and > (stated precondition making encode_transition '
    'injective); LOWER uninterpreted (idempotent on canonical atoms); JSON float round-trip and the real file system are '
    'outside; interleavings are covered as: write, overwrite in another spelling, write of a neighbouring key, reads.',
    'DESIGN.md §3 / Appendix A C06', TECH + '; z3 + cvc5 string theory for location terms')
CLAIMED['C07'] = (
    'provider: each of the 13 rate accessors and wavelength() of OpenADAS (run from source) is executed for all 8 flag '
    'combinations, element / isotope arguments and a nondeterministic repository (every getter either returns a token or '
    'raises RuntimeError): missing data raises RuntimeError or - when null rates were requested - yields the real '
    '(translated) Null* rate, which is constructed without error and evaluates to 0 at symbolic arguments; isotopes are '
    'looked up through their element, wavelengths through the species as documented, flags and data path are forwarded. '
    'rate objects: all data-backed rate classes (translated) are built from symbolic positive tables on 2x2 grids (1- and '
    '3-point axes thorough) and evaluated at a symbolically chosen point kind per axis: grid point => stored value times '
    'the documented factor (hc/lambda, sen*st/sref, qeb*qti*qni*qz*qb/qref^4), non-positive argument => 0, >= 0, outside '
    'the range => ValueError iff extrapolation is off.',
    'raysect cubic interpolators by contract (node value, range policy); log10 and 10**x uninterpreted inverse monotone '
    'functions; values between grid points are not claimed.',
    'DESIGN.md §3 / Appendix A C07', TECH)
CLAIMED['C14'] = (
    'Caching1D/2D/3D (translated, with find_index / derivatives_array / factorial) are executed on exact rational '
    'arithmetic for the area [0,1]^d and several resolutions (2-5 cells per axis in 1D, 2-3 in 2D, 2 in 3D) with the wrapped '
    'function uninterpreted and the evaluation points symbolic: the value at p2 after evaluating at any p1 equals that of a '
    'fresh object (also with symbolic function_boundaries, which only rescale internally), values at sampling nodes equal '
    'the wrapped function, functions linear in each coordinate are reproduced exactly, symbolic quadratics are within '
    '(1/4) h^2 max|F\'\'| (1D), and outside the area the object raises or - no_boundary_error - calls the function directly.',
    'numpy.linalg.solve modelled as the exact rational inverse of the concrete collocation matrix; area/resolution concrete per '
    'job; 3D history independence only in the thorough tier; general C2 error bound outside the claim.',
    'DESIGN.md §3 / Appendix A C14', TECH)
CLAIMED['C17'] = (
    'AxisymmetricVoxel.cross_sectional_area / cross_section_centroid / volume (translated) are executed on polygons with 3-5 '
    '(6 thorough) fully symbolic vertices: z3 proves area = |fan-triangulation area|, centroid = area-weighted mean of the fan '
    'triangle centroids, volume = 2 pi c_r A, and invariance under every cyclic rotation and under reversal of the vertex '
    'list. The constructor is run with raysect geometry stubbed: vertices stored as given or reversed, negative radius and '
    '< 3 vertices rejected. emissivity_from_function is run on convex polygons with every uniform() draw a fresh symbolic '
    'u in [0,1): the triangle chosen satisfies cum[t-1] <= u*total < cum[t] (probability area/total), one sample per '
    'requested sample, constant emissivity returned exactly; VoxelCollection.total_volume is the sum of the voxel volumes.',
    'raysect winding2d / triangulate2d / find_index / point_triangle / uniform are models or stubs; CSG construction and '
    'uniformity inside a triangle are outside the claim.',
    'DESIGN.md §3 / Appendix A C17', TECH)
CLAIMED['C10'] = (
    'For straight rays between two symbolic points inside a Cartesian grid (up to 3 / 6 samples, 2-8 cells, one source per cell) z3 '
    'proves each cell entry is within two integration steps of the exact chord in that cell, cells missed by the ray get nothing '
    'and the entries sum to the chord. Both RayTransfer integrators (translated) are also executed with the voxel map an uninterpreted function from cells to source '
    'ids in [-1,2), the ray length, start point and integration step symbolic and every sample position havocked (arbitrary '
    'positions inside the grid: a superset of all rays): for up to 2 (quick) / 4 (thorough) samples z3 proves n = '
    'max(min_samples, floor(length/step)), samples at (it+1/2) length/n, and that each source receives exactly dt times the '
    'number of samples whose cell maps to it (cells mapped to -1 add nothing; merged maps are the sum over their cells by '
    'this formula), total between 0 and the chord length, short rays add nothing. emission_function / index arithmetic: '
    'for symbolic cell sizes and inner radius the cell index satisfies i d <= coordinate < (i+1) d, emission adds 1 to the '
    'mapped source, and the cylindrical grid repeats with the angular period. Mask / voxel-map bookkeeping: exhaustive '
    'enumeration on a 2x1x2 grid (numpy boolean indexing cannot be symbolic; labelled as enumeration).',
    'raysect geometry (start/end points), the two-step chord-length error bound on cylindrical grids (decided for Cartesian grids by chord_per_cell) and floating-point rounding of the index '
    'computation are outside the claim; atan2 and sqrt are havocked / harness-supplied in the accumulation harness.',
    'DESIGN.md §3 / Appendix A C10', TECH)
CLAIMED['C03'] = (
    'ExcitationLine, RecombinationLine, ThermalCXLine, TotalRadiatedPower and Bremsstrahlung (translated) are executed on an '
    '8-species composition (neutral and bare charge states, hydrogen isotopes, a second bare nucleus) with every density and '
    'temperature an arbitrary real (zero / negative included) and every rate coefficient an uninterpreted non-negative '
    'function tagged by the accessor and key it was requested with: z3 proves the radiance handed to the line shape equals '
    '(1/4pi) n_e n_i PEC(n_e,T_e) with the right charge state (Z+1 for recombination), the thermal-CX sum over eligible '
    'donors (receiver and bare nuclei excluded) with PEC_d(n_e,T_e,T_d), total radiated power spread over every bin, the '
    'bremsstrahlung bin = integral / bin width over its own limits with the local plasma state and the integrand equal to the '
    'Hutchinson expression (constant re-assembled from CODATA values); no emission exactly when a required quantity is '
    'non-positive; never negative; the right coefficients are requested.',
    'line shape and integrator are recording stubs (C02 / quadrature error outside); one evaluation point per run.',
    'DESIGN.md §3 / Appendix A C03', TECH)
CLAIMED['C05'] = (
    'BeamCXLine (1-2 beam metastables quick, 3 thorough) and BeamEmissionLine (translated) are executed on a composition of '
    'C6+, C5+, He2+, H+ and a neutral with null coefficients; beam energy / density, ion densities, temperatures, flow '
    'velocities, B vector, total ion density and Z_eff symbolic, coefficients non-negative uninterpreted functions tagged '
    'by the request. z3 proves radiance = (1/4pi) n_b n_rec q with q = (q_1 + sum k_i q_i)/(1 + sum k_i), every q_i evaluated '
    'at (E_int, T_rec, total ion density, Z_eff, |B|), k_i the charge-density-weighted mean of the population coefficients '
    'at (E_int,i , sum Z^2 n / Z_i , T_i), min q_i <= q <= max q_i; beam emission = (1/4pi) n_b sum Z_i n_i q_i(...); both '
    'vanish exactly where the beam or receiver density is zero; Plasma.z_effective = sum n Z^2 / sum n Z and ion_density as '
    'documented.',
    'line shapes are recording stubs; sqrt as root variable; the beam points along +z (flow velocities symbolic); '
    'cdivision by the neutral charge 0 keeps z3 total division (its value is multiplied by 0).',
    'DESIGN.md §3 / Appendix A C05', TECH)
CLAIMED['C04'] = (
    'SingleRayAttenuator (translated, with conversion.py from source) is executed for a 1 m beam with 4 / 5 (9 thorough) axis '
    'nodes, energy, power, sigma, divergences, beam translation, species density / temperature / velocity profiles '
    '(uninterpreted functions of position) and non-negative stopping coefficients symbolic: z3 proves the axis line density at '
    'every node equals P/(E m e)/v exp(-trapz(S)/v) with the documented composite stopping coefficient and interaction '
    'energies, is the same at every node without stopping (any divergence), never increases for S >= 0, that the density is '
    'line density times the bivariate normal with sigma(z)^2 = sigma0^2 + (z tan(div))^2, and the clamp. Beam.density is zero '
    'before the source and beyond the length; Beam.direction is a unit vector whose streamlines keep x/sigma_x(z), '
    'y/sigma_y(z) constant.',
    'cumulative_trapezoid and the linear Interpolator1DArray are exact models; cross-section integral of the normal pdf = 1 is a '
    'stated lemma (so flux(z) = line density); beam placement by translation only; CODATA constants taken from scipy as the '
    'package does.',
    'DESIGN.md §3 / Appendix A C04', TECH)
CLAIMED['C12'] = (
    'EFITEquilibrium.__init__ / map2d / map3d / map_vector2d / map_vector3d, EFITLCFSMask, MagneticField, PoloidalFieldVector, '
    'FluxSurfaceNormal, FluxCoordToCartesian, IsoMapper2D, (Vector)AxisymmetricMapper and ClampOutput2D are executed from source on a '
    'symbolic equilibrium (3x3 psi grid quick, up to 4x4 thorough; symbolic uniform axes, psi nodes, psi_axis != psi_lcfs of either sign, '
    'F profile, vacuum field) at a symbolic point of the grid domain. z3 (QF_NRA) decides per path: psi_n = max(0, (psi-psi_axis)/(psi_lcfs-'
    'psi_axis)) >= 0, inside_lcfs = polygon AND psi_n <= 1, map2d = profile(psi_n) inside / outside value elsewhere (function and 2xN '
    'array profiles), map3d(x,y,z) = map2d(sqrt(x^2+y^2), z), derivative grids = second-order differences of psi, B = (-psi_z/r, F/r | '
    'B0R0/r, psi_r/r), basis orthonormal with n = p x t, p along the in-plane field, B.n = 0, mapped vectors have exactly the prescribed '
    'components, map_vector3d = map_vector2d rotated by the toroidal angle. Bounded, not a proof.',
    'the cubic interpolators are modelled by contract (linear functional of node data with uninterpreted weights summing to one); the '
    'polygon test is an uninterpreted 0/1 function; basis identities are proved for abstracted field components (generalisation); '
    'psin_to_r is outside; the bundled equilibria are covered only as instances of "any psi grid" up to the stated grid sizes.',
    'DESIGN.md §3 / Appendix A C12', TECH)
CLAIMED['C08'] = (
    'parse_adf11 / parse_adf12 / parse_adf15 / parse_adf21 / parse_adf22bmp / parse_adf22bme, readvalues, parse_adas2x_rate and every '
    'install_adf* function are executed from /repo source on files produced by independent writers of the published layouts. The text '
    'structure (grid sizes incl. counts that are not multiples of the values per line, 1-5 charge blocks, 1-4 ADF15 blocks of types EXCIT / '
    'RECOM / CHEXC in index or reversed order, hydrogen / hydrogen-like / full-configuration headers, resolved / unresolved ADF11 header) is '
    'concrete per job (186 files quick, 828 thorough); every number in a file is a provenance-tagged numeral whose float() is a fresh symbolic '
    'real, so z3 decides for all numeric contents that each returned table cell equals the documented expression of the right file entry '
    '(10**x, *1e6, *1e-6, /10; (density, temperature) order; block-to-transition assignment; Z1-1 for scd/plt) and that the dictionaries '
    'handed to repository.update_* have the documented keys. Element mismatch, absent block, invalid header are checked to raise.',
    'text structure is enumerated, not symbolic (regular-expression scraping of symbolic text is out of reach of the solvers available); the '
    'repository write/read-back leg is C06\'s claim (update_* arguments are compared here); ADF12 header columns follow the parser.',
    'DESIGN.md §3 / Appendix A C08', 'concrete enumeration of file layouts x symbolic numeric content: real parsers executed on z3 proxies, SMT (z3) decides each table-cell equality')
CLAIMED['C01'] = (
    'The real Plasma, Beam and Laser nodes, Composition / ModelManager, PlasmaMaterial / BeamMaterial / LaserMaterial, PlasmaModel / BeamModel / '
    'BeamAttenuator / LaserModel, the five passive models, BeamCXLine, BeamEmissionLine, SingleRayAttenuator and the Notifier are executed from '
    'source on a transcribed raysect scene graph. Histories build -> [observe] -> change -> [observe] -> change -> observe are explored for every '
    'ordered pair (triple in the thorough tier) of the 15 plasma and 12 laser mutators, and for every single change plus 20 selected pairs (all pairs '
    'in the thorough tier) of the 21 beam / attenuator / plasma mutators, with the interleaved observations as symbolic choices and every new '
    'value a fresh symbolic object; z3 decides that the final observation (material emission function at a symbolic point, beam density, bounding '
    'primitive and its dimensions, integrator, importance, ion density, Z_eff) equals that of a scene built from scratch in the final '
    'configuration, and that mutators are accepted in any order. Bounded, not a proof.',
    'scene-graph callbacks follow the compiled dispatch (C-only methods are not reached by raysect); translations only; line shapes and the laser '
    'model are recording stubs, rates uninterpreted functions tagged by provider; exp / sqrt are plain uninterpreted functions on the beam and '
    'laser side; ray tracing through the bounding primitives and the Thomson formula itself are outside; one known finding (clamp_sigma) is listed.',
    'DESIGN.md §3 C01', 'bounded exploration of mutator histories by symbolic execution of the translated real source (history choices and all values symbolic); SMT (z3) decides live-vs-fresh observation equality per path')
NOT_YET = {}
props = [json.loads(l) for l in open(os.path.join(HERE, 'properties.jsonl'))]
checks, na = [], []
for p in props:
    i = p['id']
    if i in CLAIMED:
        text, note, ref, tech = CLAIMED[i]
        checks.append({
            'property_id': i,
            'quick_cmd': './check %s --tier quick' % i,
            'thorough_cmd': './check %s --tier thorough' % i,
            'evidence_file': 'evidence/%s.json' % i,
            'replay_cmd_template': './check %s --replay {path}' % i,
            'engine': 'crosshair' if i == 'C15' else 'symx',
            'level_claimed': {'category': 'other', 'text': text, 'design_ref': ref},
            'level_note': note,
            'technique': tech,
        })
    else:
        na.append({'property_id': i, 'reason': NOT_YET.get(i, 'check not built yet in this commit (planned, see DESIGN.md §4); nothing is claimed for it')})
m = {
    'version': 1,
    'setup_cmd': './check --setup',
    'hooks': {'guard': 'CHERAB_CORE_VERIF', 'enable': 'none needed: the checks read /repo source and use public entry points',
              'baseline_off_cmd': 'cd /repo && /venv/bin/python -m pytest -ra -q -p no:cacheprovider --timeout=900 --continue-on-collection-errors',
              'source_commits': [], 'add_only': True},
    'engines': [
        {'name': 'crosshair', 'path': 'props/c15.py', 'serves_properties': ['C15'], 'kind_free_text': 'CrossHair symbolic execution (z3) of generated contracts over the real group classes'},
        {'name': 'symx', 'path': 'symx/', 'serves_properties': sorted(set(CLAIMED) - {'C15'}),
         'kind_free_text': 'own symbolic executor: Cython->Python translation of /repo source at run time, z3-backed proxy values, re-execution DFS path exploration, SMT per obligation, float/compiled replay'},
    ],
    'checks': checks,
    'not_applicable': na,
    'notes': 'exit 0 = held within bounds; 1 = reproduced violation (VIOLATION line); 3 = harness error / inconclusive (never a verdict).',
}
json.dump(m, open(os.path.join(HERE, 'MANIFEST.json'), 'w'), indent=1)
print('claimed', sorted(CLAIMED), 'n/a', len(na))

#!/bin/bash
# usage: tools/try_seed_wt.sh <PROP> <name> <worktree>
# like try_seed.sh but leaves /repo alone: the check reads the (mutated, built) scratch worktree through SYMX_REPO and imports
# its compiled modules through the worktree's sitecustomize; evidence goes to a scratch directory
set -u
PROP=$1; NAME=$2; WT=$3
D=/verif/seeded/$NAME; mkdir -p $D
git -C $WT diff -- cherab > $D/patch.diff
cp $WT/demo_mutation.py $D/demo_mutation.py
echo "patch: $(wc -l < $D/patch.diff) lines; files: $(grep '^+++ ' $D/patch.diff | tr '\n' ' ')"
( cd $WT && PYTHONPATH=$WT/_wt_site timeout 900 /venv/bin/python $D/demo_mutation.py > $D/demo_with_patch.txt 2>&1 ); DW=$?
( cd /tmp && timeout 900 /venv/bin/python $D/demo_mutation.py > $D/demo_without_patch.txt 2>&1 ); DO=$?
cd /verif && SYMX_REPO=$WT PYTHONPATH=$WT/_wt_site SYMX_EVIDENCE_DIR=/tmp/seed_evidence ./check $PROP --tier quick > $D/check_output.txt 2>&1; RC=$?
grep -v WARNING $D/check_output.txt | grep "VIOLATION\|KNOWN\|HARNESS-ERROR\|^$PROP" | cut -c1-300 | head -8
echo "check_exit=$RC demo_with_patch_exit=$DW demo_without_patch_exit=$DO(on /repo)"

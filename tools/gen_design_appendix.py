#!/usr/bin/env python3
"""prints the per-harness table (functions encoded, job counts, bounds, stubs, outside-claim) read from the harness decorators;
its output is pasted into DESIGN.md Appendix A by `tools/gen_design_appendix.py > /tmp/app.md`"""
import importlib, os, sys
HERE = os.path.dirname(os.path.dirname(os.path.abspath(__file__)))
sys.path.insert(0, HERE)
from symx import harness as H
for i in range(1, 21):
    p = 'C%02d' % i
    try:
        importlib.import_module('props.' + p.lower())
    except Exception as e:
        print('### %s: import failed: %s' % (p, e))
        continue
    print('### %s' % p)
    for h in H.REGISTRY.get(p, []):
        print('* **%s** — jobs quick/thorough: %d / %d' % (h.name, len(h.tiers.get('quick', [])), len(h.tiers.get('thorough', []))))
        print('  * encodes: ' + ', '.join('`%s`' % f.replace('cherab.', '') for f in (h.functions or [])))
        for k, v in (h.bounds or {}).items():
            print('  * bound (%s): %s' % (k, v))
        if h.stubs:
            print('  * stubs / assumptions: ' + '; '.join(h.stubs))
        if h.outside:
            print('  * outside the claim: ' + '; '.join(h.outside))
        if h.cover:
            print('  * reachability witnesses (must be hit): ' + ', '.join(h.cover))
    print()

#!/bin/bash
# usage: mk_worktree.sh <name>  -> /tmp/wt_<name>: detached worktree of /repo HEAD with the compiled extension modules copied in
set -e
n=$1; d=/tmp/wt_$n
git -C /repo worktree add --detach $d HEAD >/dev/null 2>&1
cd /repo && find cherab -name '*.so' -o -name '*.c' | grep -v "^\./" > /tmp/_sofiles_$n.txt
rsync -a --files-from=/tmp/_sofiles_$n.txt /repo/ $d/
find $d/cherab -name '*.c' -exec touch {} +; sleep 1; find $d/cherab -name '*.so' -exec touch {} +
mkdir -p $d/_wt_site
cat > $d/_wt_site/sitecustomize.py <<PY
import cherab
cherab.__path__.insert(0, '$d/cherab')
PY
rm -f /tmp/_sofiles_$n.txt
echo $d

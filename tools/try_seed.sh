#!/bin/bash
# usage: tools/try_seed.sh <PROP> <name> <worktree>
# copies patch+demo into seeded/<name>; on /repo: apply, rebuild, demo must fail, quick check, revert, rebuild, demo must pass
set -u
PROP=$1; NAME=$2; WT=$3
D=/verif/seeded/$NAME; mkdir -p $D
if [ -d "$WT" ]; then
  git -C $WT diff -- cherab > $D/patch.diff
  cp $WT/demo_mutation.py $D/demo_mutation.py 2>/dev/null
fi
BUILD='import sys; sys.path.insert(0,"/verif"); from symx import build; build.ensure_built()'
echo "patch: $(wc -l < $D/patch.diff) lines; files: $(grep '^+++ ' $D/patch.diff | tr '\n' ' ')"
cd /repo && git apply $D/patch.diff || { echo APPLY-FAILED; exit 2; }
cd /verif && .venv/bin/python -c "$BUILD" 2>/dev/null
( cd /tmp && timeout 600 /venv/bin/python $D/demo_mutation.py > $D/demo_with_patch.txt 2>&1 ); DW=$?
cd /verif && ./check $PROP --tier quick > $D/check_output.txt 2>&1; RC=$?
grep -v WARNING $D/check_output.txt | grep "VIOLATION\|KNOWN\|HARNESS-ERROR\|^$PROP" | cut -c1-300 | head -8
cd /repo && git checkout -- . && cd /verif && .venv/bin/python -c "$BUILD" 2>/dev/null
( cd /tmp && timeout 600 /venv/bin/python $D/demo_mutation.py > $D/demo_without_patch.txt 2>&1 ); DO=$?
echo "check_exit=$RC demo_with_patch_exit=$DW demo_without_patch_exit=$DO dirty=$(git -C /repo status --short | wc -l)"

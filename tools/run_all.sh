#!/bin/bash
# runs every claimed quick (or $1) check sequentially; prints one summary line per property
cd "$(dirname "$0")/.."
tier=${1:-quick}
for p in $(python3 -c "import json;print(' '.join(c['property_id'] for c in json.load(open('MANIFEST.json'))['checks']))"); do
  s=$(date +%s)
  out=$(./check $p --tier $tier 2>&1); rc=$?
  e=$(date +%s)
  echo "$p rc=$rc $((e-s))s $(echo "$out" | grep -c VIOLATION) violations; $(echo "$out" | grep "HARNESS-ERROR" | head -2 | cut -c1-200)"
done

#!/usr/bin/env python3
"""usage: seed_meta.py <name> <PROP> <change> <needs> <result>  -> seeded/<name>/meta.json (check lines taken from check_output.txt)"""
import json, os, sys
name, prop, change, needs, result = sys.argv[1:6]
d = os.path.join('/verif/seeded', name)
lines = []
p = os.path.join(d, 'check_output.txt')
if os.path.exists(p):
    lines = [l.strip()[:300] for l in open(p) if l.startswith(('VIOLATION', 'KNOWN', 'HARNESS-ERROR', prop))][:8]
json.dump({'property': prop, 'change': change, 'needs_to_manifest': needs, 'source': 'independent sub-agent given only the property text and a scratch worktree',
           'ran': ['git -C /repo apply seeded/%s/patch.diff' % name, 'in-place rebuild (symx.build)', 'python seeded/%s/demo_mutation.py -> exit 1 with the patch, exit 0 without' % name,
                   './check %s --tier quick' % prop, 'git -C /repo checkout -- . ; rebuild'],
           'existing_tests': 'relevant test directories passed with the change (run by the sub-agent)', 'result': result, 'check_lines': lines}, open(os.path.join(d, 'meta.json'), 'w'), indent=1)
print('ok')

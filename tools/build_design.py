#!/usr/bin/env python3
"""assembles DESIGN.md from DESIGN_head.md + DESIGN_tail.md (hand-written) + Appendix A (generated from the harness registry) + the seed table (seeded/*/meta.json)"""
import json, os, glob, subprocess, sys
HERE = os.path.dirname(os.path.dirname(os.path.abspath(__file__)))
head = open(os.path.join(HERE, 'DESIGN_head.md')).read()
tail = open(os.path.join(HERE, 'DESIGN_tail.md')).read()
rows = ['| seed | property | change | first result | final result |', '|---|---|---|---|---|']
for m in sorted(glob.glob(os.path.join(HERE, 'seeded', '*', 'meta.json'))):
    d = json.load(open(m))
    name = os.path.basename(os.path.dirname(m))
    res = str(d.get('result', ''))
    first = 'missed' if res.startswith('missed') or 'missed at first' in res else ('inconclusive' if 'inconclusive' in res.split(';')[0] or 'harness error' in res.split(';')[0] else 'caught')
    rows.append('| %s | %s | %s | %s | %s |' % (name, d.get('property', ''), str(d.get('change', '')).replace('|', '/'), first, res.replace('|', '/')[:260]))
tail = tail.replace('SEEDS_TABLE', '\n'.join(rows))
py = os.path.join(HERE, '.venv', 'bin', 'python')
app = subprocess.run([py if os.path.exists(py) else sys.executable, os.path.join(HERE, 'tools', 'gen_design_appendix.py')], capture_output=True, text=True).stdout
open(os.path.join(HERE, 'DESIGN.md'), 'w').write(head + tail + '--------------------------------------------------------------------------------\n## Appendix A — harness table (generated from the @harness declarations)\n\n' + app)
print('DESIGN.md written', len(head) + len(tail) + len(app))

# probe C06: location terms from the real repository code using sentinel-encoded symbolic strings
import re, types, z3, posixpath, itertools, time
import cherab.openadas.repository.atomic as A
import cherab.openadas.repository.radiated_power as RP
from cherab.core.utility import RecursiveDict

TERMS = {}
def sent(term):
    k = 'T%d' % len(TERMS); TERMS[k] = term; return '\x00' + k + '\x00'
def lift(s):
    """real str with sentinels -> z3 String term"""
    parts = re.split('(\x00T\\d+\x00)', s); out = []
    for p in parts:
        if not p: continue
        out.append(TERMS[p.strip('\x00')] if p.startswith('\x00') else z3.StringVal(p))
    return z3.Concat(*out) if len(out) > 1 else out[0]
class SInt:
    def __init__(s, name): s.t = z3.Int(name)
    def __str__(s): return sent(z3.IntToStr(s.t))
    def __format__(s, spec): return str(s)
    def __le__(s, o): return True   # assume valid charge in this probe
    def __hash__(s): return hash(s.t.sexpr())
    def __eq__(s, o): return isinstance(o, SInt) and s.t.eq(o.t)
class SSym:   # element symbol atom (already any-case); lower() -> LOWER atom
    def __init__(s, name): s.t = z3.String(name)
    def lower(s): return sent(z3.String(s.t.decl().name() + '_lower'))
class Elem:
    def __init__(s, name): s.symbol = SSym(name); s.atomic_number = 99; s.name = name
class Tagged:
    def __init__(s, tag, ndim, shape): s.tag, s.ndim, s.shape = tag, ndim, shape
    def tolist(s): return s
class NP:
    float64 = 'f8'
    @staticmethod
    def array(x, dt=None): return x
LOG = []          # (op, path-term, keypath, value)
class FS:
    def __init__(self): self.files = {}
    def open(self, path, mode='r'):
        fs = self
        class F:
            def __enter__(s): return s
            def __exit__(s, *a): return False
        f = F(); f.path = path; f.mode = mode
        if mode == 'r' and path not in fs.files: raise FileNotFoundError(path)
        return f
fs = FS()
class J:
    @staticmethod
    def load(f): LOG.append(('load', f.path)); return fs.files[f.path]
    @staticmethod
    def dump(content, f, **kw): LOG.append(('dump', f.path, dict(content))); fs.files[f.path] = dict(content)
class OS:
    path = types.SimpleNamespace(join=posixpath.join, dirname=posixpath.dirname, isdir=lambda d: True, expanduser=lambda p: p)
    makedirs = staticmethod(lambda d: None)
import builtins
for M in (A, RP):
    M.os = OS; M.json = J; M.np = NP; M.Element = Elem; M.open = fs.open
def run_write(fn, elemname, chargename, root):
    del LOG[:]; fs.files.clear()
    e = Elem(elemname); c = SInt(chargename)
    rate = {'te': Tagged('te',1,(2,)), 'ne': Tagged('ne',1,(3,)), 'rates': Tagged('r',2,(3,2)), 'rate': Tagged('r',2,(3,2))}
    fn(e, c, rate, root)
    (op, path, content), = [l for l in LOG if l[0]=='dump']
    (key, val), = content.items()
    return lift(path), lift(key), val
root = sent(z3.String('root'))
w_line = run_write(RP.add_line_power_rate, 'e1', 'c1', root)
w_cont = run_write(RP.add_continuum_power_rate, 'e2', 'c2', root)
w_ion  = run_write(A.add_ionisation_rate, 'e3', 'c3', root)
print('line :', w_line[0]); print('cont :', w_cont[0]); print('ion  :', w_ion[0])
# Q2: can continuum-add and line-add collide on the same location for some keys?  (should be unsat; sat = routing bug)
alpha = z3.Plus(z3.Union(z3.Range('a','z'), z3.Range('0','9')))
for nm,(p1,k1,_),(p2,k2,_) in [('line-vs-cont', w_line, w_cont), ('line-vs-ion', w_line, w_ion)]:
    s = z3.Solver(); s.set('timeout', 20000)
    for v in ('e1_lower','e2_lower','e3_lower'): s.add(z3.InRe(z3.String(v), alpha))
    for c in ('c1','c2','c3'): s.add(z3.Int(c) >= 0)
    s.add(p1 == p2, k1 == k2)
    t = time.time(); r = s.check(); print(nm, r, '%.2fs' % (time.time()-t))
    if r == z3.sat:
        m = s.model(); print('   model:', {str(d): m[d] for d in m.decls()})

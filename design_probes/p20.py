import sys, z3, time, numpy as np, types
from fractions import Fraction
sys.path.insert(0,'/tmp/probe')
import p2
from p2 import R, B, Explorer
import cherab.tools.plasmas.ionisation_balance as IB
REAL_NP = np
class NPShim:
    """numpy facade: array constructors produce object arrays"""
    def __getattr__(s, n): return getattr(REAL_NP, n)
    def zeros(s, shape, *a, **k): 
        z = REAL_NP.empty(shape, dtype=object); z.fill(Fraction(0)); return z
    def ones(s, shape, *a, **k):
        z = REAL_NP.empty(shape, dtype=object); z.fill(Fraction(1)); return z
captured = {}
def lsq_linear(A, b, bounds=None):
    captured['A']=A; captured['b']=b; captured['bounds']=bounds
    n=A.shape[1]; x=REAL_NP.array([R(z3.Real('x%d'%i)) for i in range(n)], dtype=object)
    return {'x': x}
IB.np = NPShim(); IB.lsq_linear = lsq_linear
def run(Z, with_tcx, passed_as):
    def h(ex):
        p2.EX=ex
        ne,te,nd = R(z3.Real('ne')),R(z3.Real('te')),R(z3.Real('nd'))
        ex.assume(ne.t>0)
        S={i:(lambda n,t,i=i: R(z3.Real('S%d'%i))) for i in range(Z)}
        al={i:(lambda n,t,i=i: R(z3.Real('a%d'%i))) for i in range(1,Z+1)}
        C={i:(lambda n,t,i=i: R(z3.Real('c%d'%i))) for i in range(1,Z+1)}
        el=types.SimpleNamespace(atomic_number=Z, name='x')
        if passed_as=='point':
            IB._fractional_abundance_point(el, ne, te, S, al, C if with_tcx else None, nd)
        else:
            # public-helper path: coef_tcx supplied by caller together with a donor
            IB._from_element_density_point(None, el, R(z3.Real('nel')), ne, te, tcx_donor=object(), tcx_donor_n=nd, tcx_donor_charge=0, coef_ion=S, coef_recom=al, coef_tcx=C)
        return captured['A'], captured['b'], ne, nd
    return h
def spec_matrix(Z, ne, nd, with_tcx):
    S=[z3.Real('S%d'%i) for i in range(Z)]; al=[None]+[z3.Real('a%d'%i) for i in range(1,Z+1)]; C=[None]+[z3.Real('c%d'%i) for i in range(1,Z+1)]
    r = nd.t/ne.t if with_tcx else z3.RealVal(0)
    M=[[z3.RealVal(0)]*(Z+1) for _ in range(Z+2)]
    for i in range(Z+1):
        M[i]=list(M[i])
        if i>0: M[i][i-1]=ne.t*S[i-1]
        loss = z3.RealVal(0)
        if i<Z: loss = loss + S[i]
        if i>0: loss = loss + al[i] + r*C[i]
        M[i][i] = -ne.t*loss
        if i<Z: M[i][i+1]=ne.t*(al[i+1]+r*C[i+1])
    M[Z+1]=[z3.RealVal(1)]*(Z+1)
    return M
def T(v): return v.t if isinstance(v,R) else z3.RealVal(v)
for Z,with_tcx,how in ((3,False,'point'),(3,True,'point'),(6,True,'point'),(3,True,'helper')):
    t0=time.time(); ex=Explorer(); res=ex.run(run(Z,with_tcx,how))
    for pc,(A,b,ne,nd) in res:
        M=spec_matrix(Z,ne,nd,True if how=='helper' else with_tcx)
        s=z3.Solver(); [s.add(c) for c in pc]
        s.add(z3.Or([T(A[i,j])!=M[i][j] for i in range(Z+2) for j in range(Z+1)]))
        r=s.check()
        print('Z',Z,'tcx',with_tcx,how,'-> matrix==spec:', 'unsat(holds)' if r==z3.unsat else r, '%.2fs'%(time.time()-t0))

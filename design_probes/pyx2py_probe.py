# quick probe translator: Cython parse tree -> python source text (subset)
import sys
from Cython.Compiler.Main import Context, CompilationOptions, default_options
from Cython.Compiler.Scanning import FileSourceDescriptor
from Cython.Compiler import Nodes as N, ExprNodes as E

def parse(f, root='/repo/'):
    ctx = Context.from_options(CompilationOptions(default_options))
    src = FileSourceDescriptor(f, f)
    mod = f[len(root):].rsplit('.',1)[0].replace('/','.')
    scope = ctx.find_module(mod, pos=(src,1,0), need_pxd=0)
    return ctx.parse(src, scope, pxd=f.endswith('.pxd'), full_module_name=mod)

class Tr:
    def __init__(self): self.out=[]; self.ctypes=[{}]
    def emit(self, ind, s, node=None):
        ln = node.pos[1] if node is not None and getattr(node,'pos',None) else 0
        self.out.append('    '*ind + s + ('   #L%d'%ln if ln else ''))
    # ---- expressions
    def x(self, n):
        k=type(n).__name__
        m=getattr(self,'x_'+k,None)
        if m is None: raise NotImplementedError('expr '+k+' at %s'%(n.pos[1:],))
        return m(n)
    def x_NameNode(s,n): return n.name
    def x_IntNode(s,n): return n.value
    def x_FloatNode(s,n): return 'FLOAT(%r)'%n.value
    def x_BoolNode(s,n): return repr(bool(n.value))
    def x_NoneNode(s,n): return 'None'
    def x_UnicodeNode(s,n): return repr(str(n.value))
    x_IdentifierStringNode = x_UnicodeNode
    def x_AttributeNode(s,n): return '%s.%s'%(s.x(n.obj), n.attribute)
    def binop(s,n): return '(%s %s %s)'%(s.x(n.operand1), n.operator, s.x(n.operand2))
    x_AddNode=x_SubNode=x_MulNode=x_PowNode=x_ModNode=binop
    def x_DivNode(s,n): return 'CDIV(%s, %s)'%(s.x(n.operand1), s.x(n.operand2))
    def x_UnaryMinusNode(s,n): return '(-%s)'%s.x(n.operand)
    def x_NotNode(s,n): return '(not %s)'%s.x(n.operand)
    def x_BoolBinopNode(s,n): return '(%s %s %s)'%(s.x(n.operand1), n.operator, s.x(n.operand2))
    def x_PrimaryCmpNode(s,n):
        r='%s %s %s'%(s.x(n.operand1), n.operator.replace('_',' '), s.x(n.operand2))
        c=n.cascade
        while c is not None:
            r+=' %s %s'%(c.operator.replace('_',' '), s.x(c.operand2)); c=c.cascade
        return '('+r+')'
    def x_SimpleCallNode(s,n): return '%s(%s)'%(s.x(n.function), ', '.join(s.x(a) for a in n.args))
    def x_GeneralCallNode(s,n):
        pos=[s.x(a) for a in n.positional_args.args] if hasattr(n.positional_args,'args') else ['*'+s.x(n.positional_args)]
        kw=[]
        if n.keyword_args is not None:
            if isinstance(n.keyword_args, E.DictNode):
                for it in n.keyword_args.key_value_pairs: kw.append('%s=%s'%(it.key.value, s.x(it.value)))
            else: kw.append('**'+s.x(n.keyword_args))
        return '%s(%s)'%(s.x(n.function), ', '.join(pos+kw))
    def x_AsTupleNode(s,n): return 'tuple(%s)'%s.x(n.arg)
    def x_TupleNode(s,n): return '('+''.join(s.x(a)+', ' for a in n.args)+')'
    def x_ListNode(s,n): return '['+', '.join(s.x(a) for a in n.args)+']'
    def x_DictNode(s,n): return '{'+', '.join('%s: %s'%(s.x(i.key),s.x(i.value)) for i in n.key_value_pairs)+'}'
    def x_IndexNode(s,n): return '%s[%s]'%(s.x(n.base), s.x(n.index).strip() if not isinstance(n.index,E.TupleNode) else ', '.join(s.x(a) for a in n.index.args))
    def x_SliceNode(s,n): return '%s:%s:%s'%tuple('' if isinstance(v,E.NoneNode) else s.x(v) for v in (n.start,n.stop,n.step))
    def x_SliceIndexNode(s,n): return '%s[%s:%s]'%(s.x(n.base), '' if n.start is None else s.x(n.start), '' if n.stop is None else s.x(n.stop))
    def x_TypecastNode(s,n):
        t=getattr(n.base_type,'name',None)
        return 'CAST(%r, %s)'%(t, s.x(n.operand))
    def x_CondExprNode(s,n): return '(%s if %s else %s)'%(s.x(n.true_val), s.x(n.test), s.x(n.false_val))
    # ---- statements
    def st(self, n, ind):
        k=type(n).__name__
        m=getattr(self,'s_'+k,None)
        if m is None: raise NotImplementedError('stmt '+k+' at %s'%(n.pos[1:],))
        m(n, ind)
    def s_StatListNode(s,n,ind):
        if not n.stats: s.emit(ind,'pass')
        for c in n.stats: s.st(c,ind)
    def s_FromCImportStatNode(s,n,ind):
        names=[(nm[1], nm[2] or nm[1]) if len(nm)>2 else nm for nm in n.imported_names]
        s.emit(ind,'CIMPORT(globals(), %r, %r)'%(n.module_name, [(a[1],a[2]) for a in n.imported_names]), n)
    def s_CImportStatNode(s,n,ind): s.emit(ind,'CIMPORT_MOD(globals(), %r, %r)'%(n.module_name, n.as_name), n)
    def s_FromImportStatNode(s,n,ind):
        s.emit(ind,'PYIMPORT(globals(), %r, %r)'%(str(n.module.module_name.value), [(nm, tgt.name) for nm,tgt in n.items]), n)
    def s_CVarDefNode(s,n,ind):
        t=getattr(n.base_type,'name',None)
        for d in n.declarators:
            nm = d.name if hasattr(d,'name') else d.base.name
            s.ctypes[-1][nm]=t
            if getattr(d,'default',None) is not None: s.emit(ind,'%s = COERCE(%r, %s)'%(nm,t,s.x(d.default)), n)
    def s_SingleAssignmentNode(s,n,ind):
        lhs=s.x(n.lhs); rhs=s.x(n.rhs)
        if isinstance(n.lhs,E.NameNode) and s.ctypes[-1].get(n.lhs.name) in ('int','double','long','bint','Py_ssize_t'):
            rhs='COERCE(%r, %s)'%(s.ctypes[-1][n.lhs.name], rhs)
        s.emit(ind,'%s = %s'%(lhs,rhs), n)
    def s_InPlaceAssignmentNode(s,n,ind):
        if n.operator=='/': s.emit(ind,'%s = CDIV(%s, %s)'%(s.x(n.lhs),s.x(n.lhs),s.x(n.rhs)),n)
        else: s.emit(ind,'%s %s= %s'%(s.x(n.lhs),n.operator,s.x(n.rhs)),n)
    def s_ExprStatNode(s,n,ind): s.emit(ind,s.x(n.expr),n)
    def s_ReturnStatNode(s,n,ind): s.emit(ind,'return '+(s.x(n.value) if n.value is not None else ''),n)
    def s_PassStatNode(s,n,ind): s.emit(ind,'pass')
    def s_RaiseStatNode(s,n,ind): s.emit(ind,'raise '+(s.x(n.exc_type) if n.exc_type is not None else ''),n)
    def s_IfStatNode(s,n,ind):
        for i,c in enumerate(n.if_clauses):
            s.emit(ind,('if ' if i==0 else 'elif ')+s.x(c.condition)+':',c); s.st(c.body,ind+1)
        if n.else_clause is not None:
            s.emit(ind,'else:'); s.st(n.else_clause,ind+1)
    def s_ForInStatNode(s,n,ind):
        s.emit(ind,'for %s in %s:'%(s.x(n.target), s.x(n.iterator.sequence)),n); s.st(n.body,ind+1)
    def s_TryExceptStatNode(s,n,ind):
        s.emit(ind,'try:'); s.st(n.body,ind+1)
        for c in n.except_clauses:
            pat=', '.join(s.x(p) for p in c.pattern) if c.pattern else ''
            s.emit(ind,'except (%s):'%pat if pat else 'except:'); s.st(c.body,ind+1)
    def args(s, arglist):
        res=[]
        for a in arglist:
            d=a.declarator
            nm = d.name if d.name else a.base_type.name   # untyped arg: name lives in base_type
            t = a.base_type.name if d.name else None
            s.ctypes[-1][nm]=t
            res.append(nm + ('='+s.x(a.default) if a.default is not None else ''))
        return res
    def s_DefNode(s,n,ind):
        s.ctypes.append({})
        for d in (n.decorators or []): s.emit(ind,'@'+s.x(d.decorator),d)
        a=s.args(n.args)
        if n.star_arg is not None: a.append('*'+n.star_arg.declarator.name if n.star_arg.declarator.name else '*'+n.star_arg.base_type.name)
        s.emit(ind,'def %s(%s):'%(n.name, ', '.join(a)),n); s.st(n.body,ind+1); s.ctypes.pop()
    def s_CFuncDefNode(s,n,ind):
        s.ctypes.append({})
        d=n.declarator
        name=d.base.name
        s.emit(ind,'def %s(%s):   # c%sdef'%(name, ', '.join(s.args(d.args)), 'p' if n.overridable else ''),n); s.st(n.body,ind+1); s.ctypes.pop()
    def s_CClassDefNode(s,n,ind):
        bases=', '.join(s.x(b) for b in n.bases.args) if n.bases is not None else ''
        s.emit(ind,'class %s(%s):'%(n.class_name,bases),n); s.st(n.body,ind+1)
    def module(s,t):
        s.st(t.body,0); return '\n'.join(s.out)
if __name__=='__main__':
    print(Tr().module(parse(sys.argv[1])))

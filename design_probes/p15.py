import z3, time
F = z3.Float64(); RNE = z3.RNE()
x, p, r = z3.FP('x',F), z3.FP('p',F), z3.FP('r',F)
def base(s):
    s.add(z3.Not(z3.fpIsNaN(x)), z3.Not(z3.fpIsInf(x)), z3.Not(z3.fpIsNaN(p)), z3.Not(z3.fpIsInf(p)), p > 0)
    s.add(z3.Not(z3.fpIsNaN(r)), z3.fpAbs(r) < p, z3.Or(z3.fpIsZero(r), z3.fpIsNegative(r) == z3.fpIsNegative(x)))
    s.add(z3.Implies(z3.fpAbs(x) < p, r == x))
s = z3.Solver(); s.set('timeout',120000); base(s)
res = z3.If(r < 0, z3.fpAdd(RNE, r, p), r)
res2 = z3.If(res >= p, z3.FPVal(0.0,F), res)
s.add(z3.Not(z3.And(res2 >= 0, res2 < p)))
t=time.time(); print('fixed variant:', s.check(), time.time()-t)

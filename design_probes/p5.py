from typing import List
from raysect.optical.observer import SightLine
from cherab.tools.observers import SightLineGroup

class SL(SightLine):
    # python-level shadow of a C property so symbolic values can be stored
    @property
    def spectral_bins(self): return self.__dict__.get('_sb', 0)
    @spectral_bins.setter
    def spectral_bins(self, v): self.__dict__['_sb'] = v

def check_bins(n: int, vals: List[int]) -> bool:
    """
    pre: 0 <= n <= 3
    pre: len(vals) <= 4
    post: _
    """
    g = SightLineGroup(observers=[SL() for _ in range(n)])
    before = list(g.spectral_bins)
    try:
        g.spectral_bins = vals
    except ValueError:
        return len(vals) != n and list(g.spectral_bins) == before
    return len(vals) == n and list(g.spectral_bins) == list(vals)

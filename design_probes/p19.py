# probe C20/C09: run the REAL admt_utils / ionisation_balance code on numpy object arrays of z3-backed proxies
import sys, z3, time, numpy as np, itertools
from fractions import Fraction
sys.path.insert(0,'/tmp/probe')
import p2
from p2 import R, B, Explorer
import cherab.tools.inversions.admt_utils as AU

def lit(v): return R(z3.RealVal(Fraction(v)))
# make R numpy friendly
R.__abs__ = lambda s: R(z3.If(s.t>=0, s.t, -s.t))
R.item = lambda s: s
def generate(nx, ny, x0, y0, dx, dy):
    verts=[]; m12={}; m21={}
    k=0
    for ix in range(nx):
        for iy in range(ny):
            xl = x0 + dx*ix; yt = y0 - dy*iy
            verts.append([[xl, yt],[xl+dx, yt],[xl+dx, yt-dy],[xl, yt-dy]])
            m12[k]=(ix,iy); m21[(ix,iy)]=k; k+=1
    return np.array(verts, dtype=object), m12, m21

def harness(nx, ny):
    def h(ex):
        p2.EX=ex
        x0,y0,dx,dy = [R(z3.Real(n)) for n in ('x0','y0','dx','dy')]
        ex.assume(dx.t>0); ex.assume(dy.t>0)
        v,m12,m21 = generate(nx,ny,x0,y0,dx,dy)
        ops = AU.generate_derivative_operators(v, m12, m21)
        # field f = a + b x + c y + d x y at cell centres
        a,b,c,d = [R(z3.Real(n)) for n in 'abcd']
        cen = np.mean(v, axis=1)
        f = np.array([a + b*cx + c*cy + d*cx*cy for cx,cy in cen], dtype=object)
        return ops, f, cen, (a,b,c,d)
    return h
# np.mean on object arrays divides by int -> needs R / int : ok. np.diff etc fine.
for nx,ny in ((2,2),(3,3),(4,3)):
    t0=time.time(); ex=Explorer(); res=ex.run(harness(nx,ny))
    nq=0; bad=0
    for pc,(ops,f,cen,(a,b,c,d)) in res:
        s=z3.Solver()
        for cnd in pc: s.add(cnd)
        gx = ops['Dx'] @ f; gy = ops['Dy'] @ f; gxy = ops['Dxy'] @ f
        claims=[]
        for i,(cx,cy) in enumerate(cen):
            claims.append(gx[i].t == (b + d*cy).t); claims.append(gy[i].t == (c + d*cx).t); claims.append(gxy[i].t == d.t)
        s.add(z3.Not(z3.And(claims))); r=s.check(); nq+=1
        bad += (r!=z3.unsat)
        if r==z3.sat:
            m=s.model(); print('  CE', {str(k):m[k] for k in m.decls() if str(k) in ('a','b','c','d','dx','dy','x0','y0')})
    print('grid %dx%d paths %d bad %d  %.1fs'%(nx,ny,len(res),bad,time.time()-t0))

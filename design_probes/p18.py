import glob, collections, sys
sys.path.insert(0,'/tmp/probe')
from pyx2py_probe import Tr, parse
miss = collections.Counter(); ok=0; bad=0
files = sorted(glob.glob('/repo/cherab/**/*.pyx', recursive=True))
for f in files:
    done=False
    t=parse(f)
    # iterate: translate, on NotImplemented record kind and monkeypatch a dummy to continue
    for _ in range(40):
        try:
            src=Tr().module(t); compile(src, f, 'exec'); done=True; break
        except NotImplementedError as e:
            k=str(e).split(' at ')[0]; miss[k]+=1
            kind,name=k.split()
            if kind=='expr': setattr(Tr,'x_'+name,lambda s,n: 'TODO')
            else: setattr(Tr,'s_'+name,lambda s,n,ind: s.emit(ind,'pass'))
        except SyntaxError as e:
            miss['SyntaxError '+str(e)[:60]]+=1; break
        except Exception as e:
            miss[type(e).__name__+' '+str(e)[:80]]+=1; break
    ok+=done; bad+=(not done)
print('files',len(files),'ok',ok,'bad',bad)
for k,v in miss.most_common(): print(v,k)

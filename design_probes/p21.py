# probe C01: token-staleness on translated plasma/node+model+material+impact_excitation with a hand Node stub
import sys, types, z3
sys.path.insert(0,'/tmp/probe')
from pyx2py_probe import Tr, parse
from cherab.core.utility.notify import Notifier     # pure python, real
ROOT='/repo/'; U={}
# missing handlers for this probe
def x_CondExprNode(s,n): return '(%s if %s else %s)'%(s.x(n.true_val), s.x(n.test), s.x(n.false_val))
class Node:
    def __init__(self, parent=None, transform=None, name=None):
        self._track=False; self.children=[]; self._parent=None; self._transform=transform or 'I'; self.name=name; self.parent=parent; self._track=True
    @property
    def parent(self): return self._parent
    @parent.setter
    def parent(self, v):
        if self._parent is v: return
        if self._parent is not None: self._parent.children.remove(self)
        self._parent=v
        if v is not None: v.children.append(self)
        self._update()
    @property
    def transform(self): return self._transform
    @transform.setter
    def transform(self, v): self._transform=v; self._update()
    def _update(self):
        if self._track: self._modified()
        for c in self.children: c._update()
    def _modified(self): pass
    def to(self, other): return ('to', id(self), id(other))
class Prim(Node):
    material=None
class AffineMatrix3D:
    def __init__(self,*a): pass
    def __bool__(self): return True
STUBS = {'Node':Node,'AffineMatrix3D':AffineMatrix3D,'Notifier':Notifier,'NumericalIntegrator':lambda step=None:('NI',str(step)),
         'InhomogeneousVolumeEmitter':type('IVE',(),{'__init__':lambda s,integ: setattr(s,'integrator',integ)}),
         'RECIP_4_PI': 1, 'Primitive': Prim, 'AtomicData': object, 'VolumeIntegrator': object,
         'autowrap_vectorfunction3d': lambda v: v, 'autowrap_function3d': lambda v: v, 'Vector3D': lambda *a: ('V',)+a,
         'ZeroDistribution': lambda: 'ZERO', 'SpeciesNotFound': KeyError}
def CIMPORT(g, mod, names):
    for nm,_as in names:
        tgt=_as or nm
        if nm in STUBS: g[tgt]=STUBS[nm]
        elif nm=='PlasmaModel': g[tgt]=load('cherab.core.plasma.model').PlasmaModel
        elif mod.startswith('cherab.core.plasma.') or mod.startswith('cherab.core.model.plasma'):
            m_=load(mod)
            g[tgt]=getattr(m_,nm) if hasattr(m_,nm) else type(nm,(),{})
        elif nm=='GaussianLine': g[tgt]=GaussianLine
        elif nm=='LineShapeModel': g[tgt]=LineShapeModel
        else: g.setdefault(tgt, type(nm,(),{}))
def PYIMPORT(g, mod, names):
    CIMPORT(g, mod, [(a,b) for a,b in names])
def load(mod):
    if mod in U: return U[mod]
    path=ROOT+mod.replace('.','/')+'.pyx'
    src=Tr().module(parse(path))
    try:
        pxd=Tr().module(parse(path[:-3]+'pxd')); src='\n'.join(l for l in pxd.split('\n') if l.startswith('CIMPORT'))+'\n'+src
    except Exception: pass
    m=types.ModuleType(mod); U[mod]=m; g=m.__dict__
    g.update(CIMPORT=CIMPORT, PYIMPORT=PYIMPORT, CIMPORT_MOD=lambda *a:None, FLOAT=float, COERCE=lambda t,v:v, CAST=lambda t,v:v, CDIV=lambda a,b:a/b,
             cython=types.SimpleNamespace(**{k:(lambda *a,**k:(lambda f:f)) for k in ('cdivision','boundscheck','wraparound','initializedcheck')}))
    exec(compile(src,path,'exec'),g); return m
class LineShapeModel: pass
class GaussianLine(LineShapeModel):
    def __init__(s,line,wl,sp,pl,ad): s.args=(wl,sp)
    def add_line(s,rad,p,d,spec): return ('LINE', rad, s.args[0])
Tr.x_CondExprNode = x_CondExprNode
def x_MergedDictNode(s,n): return s.x(n.keyword_args[0]) if len(n.keyword_args)==1 else '{'+', '.join('**'+s.x(a) for a in n.keyword_args)+'}'
Tr.x_MergedDictNode = x_MergedDictNode
PN=load('cherab.core.plasma.node'); PM=load('cherab.core.plasma.model'); IE=load('cherab.core.model.plasma.impact_excitation')
print('loaded', list(U))
# symbolic world: densities are z3 UFs tagged by species token
class Real:
    def __init__(s,t): s.t=t
    def __mul__(s,o): return Real(s.t*(o.t if isinstance(o,Real) else o))
    __rmul__=__mul__
    def __le__(s,o): return False      # assume positive in this probe
def dist(tag):
    f=z3.Function('n_'+tag, z3.RealSort(),z3.RealSort(),z3.RealSort(),z3.RealSort()); g=z3.Function('T_'+tag, z3.RealSort(),z3.RealSort(),z3.RealSort(),z3.RealSort())
    return types.SimpleNamespace(density=lambda x,y,z: Real(f(x,y,z)), effective_temperature=lambda x,y,z: Real(g(x,y,z)))
class Species:
    def __init__(s,el,ch,d): s.element,s.charge,s.distribution=el,ch,d
PN.Species=Species
class AD:
    def __init__(s,tag): s.tag=tag
    def impact_excitation_pec(s,el,ch,tr):
        f=z3.Function('pec_%s_%s_%d'%(s.tag,el,ch), z3.RealSort(),z3.RealSort(),z3.RealSort())
        return types.SimpleNamespace(evaluate=lambda ne,te: Real(f(ne.t,te.t)))
    def wavelength(s,el,ch,tr): return ('wl',s.tag,el,ch,tr)
    def __bool__(s): return True
line=types.SimpleNamespace(element='D',charge=0,transition=(3,2))
P=types.SimpleNamespace(x=z3.Real('px'),y=z3.Real('py'),z=z3.Real('pz'))
def observe(pl):
    mat=pl.children[0].material
    return mat.emission_function(P,'dir','SPEC',None,None,None,None,None)
def build(sp_tag, ad_tag, model=None):
    w=Node(); pl=PN.Plasma(parent=w)
    pl.electron_distribution=dist('e'); pl.composition=[Species('D',0,dist(sp_tag))]
    pl.atomic_data=AD(ad_tag); pl.geometry=Prim()
    m=model or IE.ExcitationLine(line); pl.models=[m]
    return pl,m
def same(a,b):
    s=z3.Solver(); s.add(a[1].t!=b[1].t); return s.check()==z3.unsat and a[2]==b[2]
ORIG=IE.ExcitationLine._change
for label,patch in (('real code',None),('seeded: _change() keeps _rates/_target_species',True)):
    pl,m=build('A','ad1'); o1=observe(pl)
    if patch:
        IE.ExcitationLine._change=lambda self: None               # fills the lazy cache
    pl.composition=[Species('D',0,dist('B'))]           # mutator 1 (fresh token B)
    pl.atomic_data=AD('ad2')                            # mutator 2
    hist=observe(pl)
    IE.ExcitationLine._change=ORIG
    fresh=observe(build('B','ad2')[0])
    print(label,'-> hist==fresh valid:', same(hist,fresh))
    print('   hist :',hist[1].t); print('   fresh:',fresh[1].t)

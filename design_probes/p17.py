# end-to-end probe: translate doppler/gaussian/zeeman/base .pyx with the probe translator, run ZeemanTriplet.add_line symbolically
import sys, types, z3, itertools, time
from fractions import Fraction
sys.path.insert(0, '/tmp/probe')
from pyx2py_probe import Tr, parse
import p2  # explorer + R/B/I proxies
from p2 import R, B, I, Explorer

ROOT='/repo/'
UNIVERSE = {}
class V3:
    def __init__(s,x,y,z): s.x,s.y,s.z=x,y,z
    def dot(s,o): return s.x*o.x+s.y*o.y+s.z*o.z
    def get_length(s):
        q=s.dot(s); n=R(z3.FreshReal('len')); p2.EX.assume(n.t>=0); p2.EX.assume(n.t*n.t==q.t); return n
    length=property(get_length)
    def normalise(s):
        n=s.get_length(); p2.EX.assume(n.t>0); return V3(s.x/n,s.y/n,s.z/n)
def lit(v): return R(z3.RealVal(Fraction(v)))
SQRT = z3.Function('sqrt', z3.RealSort(), z3.RealSort())
def sqrt(x):
    x = x if isinstance(x,R) else lit(x)
    r=R(SQRT(x.t)); p2.EX.assume(r.t>=0); p2.EX.assume(r.t*r.t==x.t); return r
LIBC = {'sqrt': sqrt, 'erf': p2.erf, 'floor': p2.floor, 'ceil': p2.ceil, 'M_SQRT2': None}
CONSTS = {}
def load(mod):
    if mod in UNIVERSE: return UNIVERSE[mod]
    path = ROOT + mod.replace('.','/') + '.pyx'
    src = Tr().module(parse(path))
    # merge pxd cimports (probe: just translate its cimport lines)
    try:
        pxd = Tr().module(parse(path[:-3]+'pxd'))
        src = '\n'.join(l for l in pxd.split('\n') if l.startswith('CIMPORT')) + '\n' + src
    except Exception as e: pass
    m = types.ModuleType(mod); UNIVERSE[mod]=m
    g = m.__dict__
    g.update(CIMPORT=CIMPORT, CIMPORT_MOD=lambda *a: None, PYIMPORT=lambda *a: None, FLOAT=lambda s: lit(float(s)),
             COERCE=lambda t,v: v, CAST=lambda t,v: v, CDIV=lambda a,b: (a if isinstance(a,R) else lit(a))/b, cython=types.SimpleNamespace(**{k:(lambda *a,**k:(lambda f:f)) for k in ('cdivision','boundscheck','wraparound','initializedcheck')}))
    exec(compile(src, path, 'exec'), g)
    return m
def CIMPORT(g, mod, names):
    for nm,_as in names:
        tgt=_as or nm
        if mod=='libc.math':
            g[tgt]=LIBC[nm]
        elif mod=='cherab.core.utility.constants':
            c = {'ATOMIC_MASS':1.66053906660e-27,'ELEMENTARY_CHARGE':1.602176634e-19,'SPEED_OF_LIGHT':299792458.0,'BOHR_MAGNETON':5.78838180123e-5,'HC_EV_NM':1239.8419738620933}
            g[tgt]=lit(c[nm])
        elif mod.startswith('cherab.core.model.lineshape.'):
            g[tgt]=getattr(load(mod),nm)
        else:
            g[tgt]=object   # type-only names in this probe
for m in ('cherab.core.model.lineshape.base','cherab.core.model.lineshape.doppler','cherab.core.model.lineshape.gaussian','cherab.core.model.lineshape.zeeman'):
    load(m)
Z = UNIVERSE['cherab.core.model.lineshape.zeeman']
print('translated+loaded:', list(UNIVERSE))

def harness(pol):
    def h(ex):
        p2.EX = ex
        rec=[]
        Z.add_gaussian_line = lambda rad,wl,sg,sp: (rec.append((rad,wl,sg)), sp)[1]
        class Dist:
            def effective_temperature(s,x,y,z): return R(z3.Real('ts'))
            def bulk_velocity(s,x,y,z): return V3(*[R(z3.Real('v'+c)) for c in 'xyz'])
        class BF:
            def evaluate(s,x,y,z): return V3(*[R(z3.Real('b'+c)) for c in 'xyz'])
        sp = types.SimpleNamespace(distribution=Dist())
        plasma = types.SimpleNamespace(get_b_field=lambda: BF())
        line = types.SimpleNamespace(element=types.SimpleNamespace(atomic_weight=R(z3.Real('aw'))))
        ex.assume(z3.Real('aw')>0); ex.assume(z3.Real('wl0')>0)
        obj = Z.ZeemanTriplet(line, R(z3.Real('wl0')), sp, plasma, None, pol)
        point = types.SimpleNamespace(x=R(z3.Real('px')),y=R(z3.Real('py')),z=R(z3.Real('pz')))
        d = V3(*[R(z3.Real('d'+c)) for c in 'xyz'])
        rad = R(z3.Real('rad'))
        obj.add_line(rad, point, d, 'SPEC')
        return rec, rad
    return h
t0=time.time()
out={}
for pol in ('no','pi','sigma'):
    ex=Explorer(); res=ex.run(harness(pol)); out[pol]=res
    print(pol,'paths',len(res),'queries',ex.queries, [len(r[1][0]) for r in res])
# property on 'no': sum of component radiances == rad on every path
ok=0
for pc,(rec,rad) in out['no']:
    s=z3.Solver(); s.set('timeout',20000)
    for c in pc: s.add(c)
    tot = sum((r[0].t for r in rec), z3.RealVal(0))
    s.add(tot != (rad.t if rec else 0*rad.t) ) if rec else s.add(z3.BoolVal(False))
    r=s.check(); ok += (r==z3.unsat); 
    if r!=z3.unsat: print('  path', len(rec), r)
print('no-polarisation sum==radiance on', ok, 'of', len(out['no']), 'paths; %.1fs'%(time.time()-t0))

import z3, time
# ionisation balance: A x = b (rows from code) => pairwise detailed balance, Z=6, symbolic positive rates
for Z in (3,6,10):
    S=[z3.Real('S%d'%i) for i in range(Z)]; al=[None]+[z3.Real('a%d'%i) for i in range(1,Z+1)]; C=[None]+[z3.Real('c%d'%i) for i in range(1,Z+1)]
    x=[z3.Real('x%d'%i) for i in range(Z+1)]; ne=z3.Real('ne'); nd=z3.Real('nd')
    s=z3.Solver(); s.set('timeout',60000)
    for v in S+al[1:]+C[1:]: s.add(v>0)
    s.add(ne>0, nd>=0)
    r = nd/ne
    rows=[]
    rows.append(ne*(-S[0]*x[0] + (al[1]+r*C[1])*x[1]))
    for i in range(1,Z):
        rows.append(ne*(S[i-1]*x[i-1] - (S[i]+al[i]+r*C[i])*x[i] + (al[i+1]+r*C[i+1])*x[i+1]))
    rows.append(ne*(S[Z-1]*x[Z-1] - (al[Z]+r*C[Z])*x[Z]))
    for row in rows: s.add(row==0)
    s.add(sum(x)==ne)
    s.add(z3.Not(z3.And([x[i]*S[i] == x[i+1]*(al[i+1]+r*C[i+1]) for i in range(Z)])))
    t=time.time(); print('Z',Z,s.check(), '%.2fs'%(time.time()-t))
# SART one step 2x2
W=[[z3.Real('w%d%d'%(i,j)) for j in range(2)] for i in range(2)]
b=[z3.Real('b%d'%i) for i in range(2)]; x0=[z3.Real('x%d'%i) for i in range(2)]; om=z3.Real('om')
s=z3.Solver(); s.set('timeout',60000)
for i in range(2):
    for j in range(2): s.add(W[i][j]>=0)
dens=[W[0][j]+W[1][j] for j in range(2)]; rl=[W[i][0]+W[i][1] for i in range(2)]
s.add(dens[0]>0,dens[1]>0,rl[0]>0,rl[1]>0)
yh=[W[i][0]*x0[0]+W[i][1]*x0[1] for i in range(2)]
# code form
new=[]
for j in range(2):
    od=0
    for i in range(2):
        od = od + (W[i][j]*(1/rl[i]))*(b[i]-yh[i])
    new.append(x0[j] + (om/dens[j])*od)
spec=[x0[j] + om/dens[j]*sum(W[i][j]/rl[i]*(b[i]-yh[i]) for i in range(2)) for j in range(2)]
s.add(z3.Or([new[j]!=spec[j] for j in range(2)]))
t=time.time(); print('sart',s.check(),'%.2fs'%(time.time()-t))
# fixed point: W x0 = b => new == x0
s=z3.Solver(); s.set('timeout',60000)
s.add(dens[0]>0,dens[1]>0,rl[0]>0,rl[1]>0)
for i in range(2): s.add(yh[i]==b[i])
s.add(z3.Or([new[j]!=x0[j] for j in range(2)]))
t=time.time(); print('sart-fp',s.check(),'%.2fs'%(time.time()-t))

import sys, glob, collections
from Cython.Compiler.Main import Context, CompilationOptions, default_options
from Cython.Compiler.Scanning import FileSourceDescriptor
from Cython.Compiler import Errors
opts = CompilationOptions(default_options)
cnt = collections.Counter(); fails=[]
def walk(n):
    cnt[type(n).__name__]+=1
    for attr in n.child_attrs:
        c = getattr(n, attr, None)
        if c is None: continue
        for x in (c if isinstance(c, list) else [c]):
            if hasattr(x,'child_attrs'): walk(x)
files = glob.glob('/repo/cherab/**/*.pyx', recursive=True)+glob.glob('/repo/cherab/**/*.pxd', recursive=True)
for f in files:
    try:
        ctx = Context.from_options(opts)
        src = FileSourceDescriptor(f, f)
        mod = f[len('/repo/'):].rsplit('.',1)[0].replace('/','.')
        scope = ctx.find_module(mod, pos=(src,1,0), need_pxd=0)
        t = ctx.parse(src, scope, pxd=f.endswith('.pxd'), full_module_name=mod)
        walk(t)
    except Exception as e:
        fails.append((f, repr(e)[:100]))
print(len(files), 'files; fails', fails[:5])
for k,v in cnt.most_common(): print(v, k)

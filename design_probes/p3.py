import z3, time
F = z3.Float64(); RNE = z3.RNE()
# remainder(x, p): r=fmod(x,p) contract: |r|<p, sign(r)=sign(x) or r==0 ; result = r+p if r<0 else r ; claim 0<=res<p
x, p, r = z3.FP('x',F), z3.FP('p',F), z3.FP('r',F)
s = z3.Solver()
s.add(z3.Not(z3.fpIsNaN(x)), z3.Not(z3.fpIsInf(x)), z3.Not(z3.fpIsNaN(p)), z3.Not(z3.fpIsInf(p)), p > 0)
s.add(z3.Not(z3.fpIsNaN(r)), z3.fpAbs(r) < p, z3.Or(z3.fpIsZero(r), z3.fpIsNegative(r) == z3.fpIsNegative(x)))
res = z3.If(r < 0, z3.fpAdd(RNE, r, p), r)
s.add(z3.Not(z3.And(res >= 0, res < p)))
t=time.time(); print(s.check(), time.time()-t); m=s.model(); print(m[x], m[p], m[r])
# ConstantSpectrum: bins=1: delta=(mx-mn)/1 ; w0 = mn + 0.5*delta ; lo = w0 - 0.5*delta ; up = lo + delta ; need lo>=mn and up<=mx
mn, mx = z3.FP('mn',F), z3.FP('mx',F)
s = z3.Solver()
one=z3.FPVal(1.0,F); half=z3.FPVal(0.5,F)
s.add(mn > z3.FPVal(1.0,F), mx < z3.FPVal(2000.0,F), mn < mx)
delta = z3.fpDiv(RNE, z3.fpSub(RNE, mx, mn), one)
w0 = z3.fpAdd(RNE, mn, z3.fpMul(RNE, half, delta))
dh = z3.fpMul(RNE, delta, half)
lo = z3.fpSub(RNE, w0, dh)
up = z3.fpAdd(RNE, lo, delta)
s.add(z3.Not(z3.And(lo >= mn, up <= mx)))
t=time.time(); print(s.check(), time.time()-t); m=s.model(); 
print(m[mn], m[mx])
import struct
def tofloat(v):
    return float(eval(str(z3.simplify(z3.fpToReal(v))).replace('?','')) ) if False else None

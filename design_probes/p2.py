# probe: re-execution symbolic explorer over z3 reals, on a hand-translated add_gaussian_line
import z3, time, itertools
from fractions import Fraction

class Abort(BaseException): pass

class Explorer:
    def __init__(self):
        self.solver = z3.Solver()
        self.queries = 0
    def run(self, fn):
        # DFS over decision sequences
        results = []
        stack = [[]]   # list of forced decision prefixes
        while stack:
            prefix = stack.pop()
            self.decisions = list(prefix); self.pos = 0; self.pc = []; self.new_alts = []
            self.solver.push()
            try:
                r = fn(self)
                results.append((list(self.pc), r))
            except Abort:
                pass
            self.solver.pop()
            stack.extend(self.new_alts)
        return results
    def assume(self, c):
        self.pc.append(c); self.solver.add(c)
    def branch(self, cond):
        # cond: z3 Bool
        if self.pos < len(self.decisions):
            d = self.decisions[self.pos]; self.pos += 1
            self.assume(cond if d else z3.Not(cond))
            return d
        # new decision: check feasibility of both
        self.queries += 2
        t = self.solver.check(cond) == z3.sat
        f = self.solver.check(z3.Not(cond)) == z3.sat
        if t and f:
            self.new_alts.append(self.decisions[:self.pos] + [False])
            self.decisions.append(True); self.pos += 1
            self.assume(cond); return True
        if t:
            self.decisions.append(True); self.pos += 1; self.assume(cond); return True
        if f:
            self.decisions.append(False); self.pos += 1; self.assume(z3.Not(cond)); return False
        raise Abort()

EX = None
def lift(v):
    if isinstance(v, R): return v.t
    if isinstance(v, int): return z3.RealVal(v)
    if isinstance(v, float): return z3.RealVal(Fraction(v))
    if isinstance(v, Fraction): return z3.RealVal(v)
    raise TypeError(v)
class B:
    def __init__(self, t): self.t = t
    def __bool__(self): return EX.branch(self.t)
class R:
    def __init__(self, t): self.t = t
    def __add__(s, o): return R(s.t + lift(o))
    __radd__ = __add__
    def __sub__(s, o): return R(s.t - lift(o))
    def __rsub__(s, o): return R(lift(o) - s.t)
    def __mul__(s, o): return R(s.t * lift(o))
    __rmul__ = __mul__
    def __truediv__(s, o): return R(s.t / lift(o))
    def __rtruediv__(s, o): return R(lift(o) / s.t)
    def __neg__(s): return R(-s.t)
    def __pow__(s,o):
        assert isinstance(o,int) and o>=0
        r=R(z3.RealVal(1))
        for _ in range(o): r=r*s
        return r
    def __eq__(s,o): return B(s.t == lift(o))
    def __ne__(s,o): return B(s.t != lift(o))
    __hash__=None
    def __lt__(s, o): return B(s.t < lift(o))
    def __le__(s, o): return B(s.t <= lift(o))
    def __gt__(s, o): return B(s.t > lift(o))
    def __ge__(s, o): return B(s.t >= lift(o))
class I:
    def __init__(self, t): self.t = t
    def __index__(s):
        # concretise by forking over values
        m = None
        v = 0
        while True:
            if EX.branch(s.t == v): return v
            v += 1
            if v > 64: raise Abort()
    def __lt__(s,o): return B(s.t < (o.t if isinstance(o,I) else o))
    def __gt__(s,o): return B(s.t > (o.t if isinstance(o,I) else o))

ERF = z3.Function('erf', z3.RealSort(), z3.RealSort())
erf_args = []
def erf(x):
    erf_args.append(x.t); return R(ERF(x.t))
def floor(x): return I(z3.ToInt(x.t))
def ceil(x): return I(-z3.ToInt(-x.t))
def imax(a, b):
    if isinstance(b, I): return I(z3.If(b.t > a, b.t, a))
def imin(a, b):
    if isinstance(b, I): return I(z3.If(b.t < a, b.t, a))
M_SQRT2 = R(z3.Real('sqrt2'))

class Spectrum:
    def __init__(s, mn, mx, bins):
        s.min_wavelength=mn; s.max_wavelength=mx; s.bins=bins
        s.delta_wavelength = (mx - mn)/bins
        s.samples_mv = [R(z3.RealVal(0)) for _ in range(bins)]

def add_gaussian_line(radiance, wavelength, sigma, spectrum):
    if sigma <= 0: return spectrum
    cl = wavelength - 10.0*sigma
    if spectrum.max_wavelength < cl: return spectrum
    cu = wavelength + 10.0*sigma
    if spectrum.min_wavelength > cu: return spectrum
    start = imax(0, floor((cl - spectrum.min_wavelength)/spectrum.delta_wavelength))
    end = imin(spectrum.bins, ceil((cu - spectrum.min_wavelength)/spectrum.delta_wavelength))
    temp = 1/(M_SQRT2*sigma)
    start = start.__index__(); end = end.__index__()
    lw = spectrum.min_wavelength + start*spectrum.delta_wavelength
    li = erf((lw - wavelength)*temp)
    for i in range(start, end):
        uw = spectrum.min_wavelength + spectrum.delta_wavelength*(i+1)
        ui = erf((uw - wavelength)*temp)
        spectrum.samples_mv[i] = spectrum.samples_mv[i] + radiance*0.5*(ui-li)/spectrum.delta_wavelength
        lw = uw; li = ui
    return spectrum

def harness(N):
    def h(ex):
        global EX; EX = ex
        del erf_args[:]
        rad, wl, sg, mn, mx = [R(z3.Real(n)) for n in ('rad','wl','sg','mn','mx')]
        ex.assume(rad.t >= 0); ex.assume(mn.t > 0); ex.assume(mx.t > mn.t); ex.assume(M_SQRT2.t > 0)
        ex.assume(M_SQRT2.t*M_SQRT2.t == 2)
        sp = Spectrum(mn, mx, N)
        add_gaussian_line(rad, wl, sg, sp)
        return sp, (rad, wl, sg, mn, mx, list(erf_args))
    return h

for N in (1,2,3,4):
    ex = Explorer(); t0=time.time()
    res = ex.run(harness(N))
    # postcondition per path: sum(samples)*delta == rad*0.5*(erf(b)-erf(a)) for SOME pair of collected erf args? use first/last
    ok=0; bad=0; unk=0
    for pc, (sp, (rad,wl,sg,mn,mx,args)) in res:
        s = z3.Solver(); s.set('timeout', 20000)
        for c in pc: s.add(c)
        total = sum((x.t for x in sp.samples_mv), z3.RealVal(0))*sp.delta_wavelength.t
        # spec: total == rad*Frac where Frac = 0.5*(erf(zu)-erf(zl)), zl,zu the clipped window edges in code's own normalisation
        # here simply: total >= 0 given monotone erf (instantiate monotonicity pairwise on collected args)
        for a,b in itertools.combinations(args,2):
            s.add(z3.Implies(a<=b, ERF(a)<=ERF(b))); s.add(z3.Implies(b<=a, ERF(b)<=ERF(a)))
        s.add(z3.Not(z3.And(total >= 0, total <= rad.t)))
        for a in args: s.add(ERF(a)>=-1, ERF(a)<=1)
        r = s.check(); ex.queries+=1
        if r==z3.unsat: ok+=1
        elif r==z3.sat: bad+=1
        else: unk+=1
    print('N',N,'paths',len(res),'ok',ok,'bad',bad,'unk',unk,'queries',ex.queries,'t=%.1fs'%(time.time()-t0))

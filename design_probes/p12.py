import z3, time
px,py,pxx,pxy,pyy,R,Dpar,Dperp = z3.Reals('px py pxx pxy pyy R Dpar Dperp')
def build(bug):
    norm = px**2+py**2
    cxx=(Dperp*px**2+Dpar*py**2)/norm; cyy=(Dperp*py**2+Dpar*px**2)/norm; cxy=(Dperp-Dpar)*(px*py)/norm
    dn_cx = -2/norm*((Dperp*px**2+Dpar*py**2)*(px*pxx+py*(pyy if bug else pxy)) + (Dperp-Dpar)*(px*py)*(px*pxy+py*pyy))
    dn_cy = -2/norm*((Dperp*py**2+Dpar*px**2)*(px*pxy+py*pyy) + (Dperp-Dpar)*(px*py)*(px*pxx+py*pxy))
    tcx = cxx/R*norm; tcy=cxy/R*norm
    cx=(2*Dperp*pxx*px+2*Dpar*pxy*py+(Dperp-Dpar)*(pxy*py+pyy*px)+dn_cx+tcx)/norm
    cy=(2*Dperp*pyy*py+2*Dpar*pxy*px+(Dperp-Dpar)*(pxy*px+pxx*py)+dn_cy+tcy)/norm
    return cx,cy,cxx,cxy,cyy
for bug in (True,False):
    cx,cy,cxx,cxy,cyy=build(bug)
    s=z3.Solver(); s.set('timeout',60000)
    s.add(px*px+py*py>0, R>0, Dpar==1, Dperp==1)
    s.add(z3.Not(z3.And(cx==1/R, cy==0, cxx==1, cyy==1, cxy==0)))
    t=time.time(); r=s.check(); print('bug',bug,r,'%.2fs'%(time.time()-t)); 
    if r==z3.sat: print(s.model())

"""C03 — passive emission models radiate exactly their documented totals (model/plasma/*.pyx translated)."""
import math
import numpy as np

from symx.harness import harness
from symx import core, rs_model
from symx.core import MATH
from symx.universe import Universe
from props import plasma_world as W

MP = 'cherab.core.model.plasma.'
FOUR_PI = 4 * math.pi

# hydrogen isotopes must be the objects the model looks up: hand in stubs for the names it imports
H, D_, T_ = W.El('hydrogen', 1), W.El('deuterium', 1), W.El('tritium', 1)
A = W.El('A', 3)
Bel = W.El('B', 2)


def _universe():
    return Universe(stubs={'hydrogen': H, 'deuterium': D_, 'tritium': T_})


def _setup(ex, uni, modname, species_spec):
    mod = uni.load(MP + modname)
    base = uni.load('cherab.core.model.lineshape.base').LineShapeModel
    Rec = W.make_recording_lineshape(base)
    species = [W.Species(ex, el, q) for el, q in species_spec]
    plasma = W.PlasmaStub(ex, species)
    ad = W.AtomicData(ex)
    pt = rs_model.Point3D(ex.real('px'), ex.real('py'), ex.real('pz'))
    dr = rs_model.Vector3D(ex.real('dx'), ex.real('dy'), ex.real('dz'))
    return mod, Rec, species, plasma, ad, pt, dr


def _fields(ex, plasma, pt):
    ne = plasma.electron_distribution.density(pt.x, pt.y, pt.z)
    te = plasma.electron_distribution.effective_temperature(pt.x, pt.y, pt.z)
    return ne, te


def _n(sp, pt):
    return sp.distribution.density(pt.x, pt.y, pt.z)


def _t(sp, pt):
    return sp.distribution.effective_temperature(pt.x, pt.y, pt.z)


SPEC = [(A, 0), (A, 1), (A, 2), (A, 3), (H, 0), (D_, 0), (D_, 1), (Bel, 2)]


@harness('C03', name='line_models', universe=_universe,
         tiers={'quick': [{'model': m, 'charge': q} for m in ('ExcitationLine', 'RecombinationLine', 'ThermalCXLine') for q in (0, 1)],
                'thorough': [{'model': m, 'charge': q} for m in ('ExcitationLine', 'RecombinationLine', 'ThermalCXLine') for q in (0, 1, 2)]},
         functions=[MP + 'impact_excitation.ExcitationLine', MP + 'recombination.RecombinationLine', MP + 'thermal_cx.ThermalCXLine'],
         cover=['emitting', 'not-emitting'],
         bounds={'composition': '8 species: four charge states of a Z=3 element (neutral and bare nucleus included), H0, D0, D+ and a bare Z=2 nucleus',
                 'values': 'all densities / temperatures arbitrary reals (zero and negative included) as uninterpreted functions of a symbolic point'},
         stubs=['distribution functions and rate coefficients: uninterpreted functions tagged by species / requested (accessor, element, charge, transition)',
                'line shape: recording stub (radiance handed over)'],
         outside=['the line shape (C02)', 'floating-point rounding'])
def line_models(ex, uni, model, charge):
    modname = {'ExcitationLine': 'impact_excitation', 'RecombinationLine': 'recombination', 'ThermalCXLine': 'thermal_cx'}[model]
    mod, Rec, species, plasma, ad, pt, dr = _setup(ex, uni, modname, SPEC)
    line = W.Line(A, charge, (3, 2))
    m = getattr(mod, model)(line, plasma=plasma, atomic_data=ad, lineshape=Rec)
    sp = uni.rs.Spectrum(400.0, 500.0, 2)
    out = m.emission(pt, dr, sp)
    ne, te = _fields(ex, plasma, pt)
    comp = plasma.composition
    if model == 'ExcitationLine':
        target = comp.get(A, charge)
        rate = ad.rates['ad_impact_excitation_pec_A_%d_3x2' % charge] if 'ad_impact_excitation_pec_A_%d_3x2' % charge in ad.rates else None
        want = lambda: (1 / FOUR_PI) * ex.uf('ad_impact_excitation_pec_A_%d_3x2' % charge, ne, te, nonneg=True) * ne * _n(target, pt)
        zero_if = [ne <= 0, te <= 0, _n(target, pt) <= 0]
    elif model == 'RecombinationLine':
        target = comp.get(A, charge + 1)
        want = lambda: (1 / FOUR_PI) * ex.uf('ad_recombination_pec_A_%d_3x2' % charge, ne, te, nonneg=True) * ne * _n(target, pt)
        zero_if = [ne <= 0, te <= 0, _n(target, pt) <= 0]
    else:
        target = comp.get(A, charge + 1)

        def want():
            tot = 0
            for s_ in comp:
                if s_ is target or s_.charge >= s_.element.atomic_number:
                    continue        # the receiver itself and bare nuclei cannot donate an electron
                pec = ex.uf('ad_thermal_cx_pec_%s_%d_A_%d_3x2' % (s_.element.name, s_.charge, charge + 1), ne, te, _t(s_, pt), nonneg=True)
                tot = tot + ex.ite(_n(s_, pt) > 0, _n(s_, pt) * pec, 0)      # a donor with non-positive density contributes nothing
            return (1 / FOUR_PI) * tot * _n(target, pt)
        zero_if = [ne <= 0, te <= 0, _n(target, pt) <= 0]
    made = Rec.created
    called = [c for r in made for c in r.calls]
    dark = ex.any(zero_if)
    if not called:
        ex.cover('not-emitting')
        ex.prove(dark, 'no-emission-only-when-a-required-density-or-temperature-is-non-positive')
        ex.prove(ex.all([ex.eq(v, 0) for v in sp.samples]), 'spectrum-untouched-when-not-emitting')
        return
    ex.cover('emitting')
    ex.prove(ex.not_(dark), 'emits-only-when-all-required-quantities-are-positive')
    ex.prove(len(made) == 1 and len(called) == 1, 'one-line-shape-call')
    rad, p_, d_ = called[0]
    ex.prove(ex.eq(rad, want()), model + ':radiance==documented-expression')
    ex.prove(ex.le(0, rad), model + ':radiance-non-negative-for-non-negative-coefficients')
    ctor = made[0].ctor
    ex.prove(ctor[0] is line and ctor[2] is target and ctor[3] is plasma and ctor[4] is ad and ctor[1] == ad.wavelength(A, charge, (3, 2)),
             model + ':line-shape-built-for-(line,wavelength,target-species)')
    ex.prove(p_ is pt and d_ is dr, 'point-and-direction-forwarded')
    # which coefficients were requested from the provider
    kinds = {'ExcitationLine': 'impact_excitation_pec', 'RecombinationLine': 'recombination_pec', 'ThermalCXLine': 'thermal_cx_pec'}
    reqs = [r for r in ad.requests if r[0] == kinds[model]]
    if model == 'ThermalCXLine':
        donors = [(s_.element, s_.charge) for s_ in comp if s_ is not target and s_.charge < s_.element.atomic_number]
        ok = [(r[1], r[2]) for r in reqs] == donors and all(r[3] is A and r[4] == charge + 1 and r[5] == (3, 2) for r in reqs)
    else:
        ok = len(reqs) == 1 and reqs[0][1] is A and reqs[0][2] == charge and reqs[0][3] == (3, 2)
    ex.prove(ok, model + ':coefficients-requested-for-the-documented-(species,charge,transition)')
    ex.sample({'model': model, 'line_charge': charge})


@harness('C03', name='total_radiated_power', universe=_universe,
         tiers={'quick': [{'charge': q, 'bins': b} for q in (0, 2) for b in (1, 2)], 'thorough': [{'charge': q, 'bins': b} for q in (0, 1, 2) for b in (1, 2, 4)]},
         functions=[MP + 'total_radiated_power.TotalRadiatedPower'], cover=['evaluated'],
         bounds={'composition': 'as line_models', 'window': 'symbolic min < max, bins concrete per job'},
         stubs=['as line_models'], outside=['floating-point rounding'])
def total_radiated_power(ex, uni, charge, bins):
    mod, Rec, species, plasma, ad, pt, dr = _setup(ex, uni, 'total_radiated_power', SPEC)
    m = mod.TotalRadiatedPower(A, charge, plasma=plasma, atomic_data=ad)
    mn = ex.real('min_wl', pos=True)
    wd = ex.real('width', pos=True)
    sp = uni.rs.Spectrum(mn, mn + wd, bins)
    pre = []
    for i in range(bins):
        v = ex.real('pre_%d' % i)
        sp.samples[i] = v
        pre.append(v)
    m.emission(pt, dr, sp)
    ex.cover('evaluated')
    ne, te = _fields(ex, plasma, pt)
    comp = plasma.composition
    ni, nup = _n(comp.get(A, charge), pt), _n(comp.get(A, charge + 1), pt)
    nh = _n(comp.get(H, 0), pt) + _n(comp.get(D_, 0), pt)
    plt = ex.uf('ad_line_radiated_power_rate_A_%d' % charge, ne, te, nonneg=True)
    prb = ex.uf('ad_continuum_radiated_power_rate_A_%d' % (charge + 1), ne, te, nonneg=True)
    prc = ex.uf('ad_cx_radiated_power_rate_A_%d' % (charge + 1), ne, te, nonneg=True)
    power = ex.ite(ni > 0, plt * ne * ni, 0) + ex.ite(nup > 0, prb * ne * nup, 0) + ex.ite(ex.all([nup > 0, nh > 0]), prc * nh * nup, 0)
    want = ex.ite(ex.any([ne <= 0, te <= 0]), 0, (1 / FOUR_PI) * power / wd)
    for i in range(bins):
        ex.prove(ex.eq(sp.samples[i] - pre[i], want), 'every-bin-gets-(excitation+recombination+hydrogen-CX-power)/(4pi*window)')
    ex.prove(ex.le(0, want), 'non-negative')
    ex.sample({'charge': charge, 'bins': bins})


class _Integ:
    """Integrator1D stand-in: records the integrand state at each call"""
    def __init__(self, ex):
        self.ex, self.calls, self.function = ex, [], None

    def evaluate(self, a, b):
        f = self.function
        self.calls.append((a, b, f.ne, f.te, list(f.species_density_mv), list(f.species_charge_mv)))
        return self.ex.uf('bin_integral', a, b)


@harness('C03', name='bremsstrahlung', universe=_universe,
         tiers={'quick': [{'bins': b} for b in (1, 2)], 'thorough': [{'bins': b} for b in (1, 2, 4)]},
         functions=[MP + 'bremsstrahlung.Bremsstrahlung', MP + 'bremsstrahlung.BremsFunction'], cover=['emitting'],
         bounds={'composition': 'as line_models (neutrals excluded by the model)', 'window': 'symbolic, bins concrete per job'},
         stubs=['Integrator1D: uninterpreted integral of the integrand over [a,b], integrand state recorded', 'free-free Gaunt factor: uninterpreted',
                'sqrt / exp: root variable / uninterpreted'],
         outside=['quadrature error', 'Gaunt factor tables', 'floating-point rounding'])
def bremsstrahlung(ex, uni, bins):
    mod, Rec, species, plasma, ad, pt, dr = _setup(ex, uni, 'bremsstrahlung', SPEC)
    integ = _Integ(ex)
    gf = W.Rate(ex, 'gaunt_ff', nonneg=True)
    m = mod.Bremsstrahlung(plasma=plasma, atomic_data=ad, gaunt_factor=gf, integrator=integ)
    mn = ex.real('min_wl', pos=True)
    dl = ex.real('delta_wl', pos=True)
    sp = uni.rs.Spectrum(mn, mn + bins * dl, bins)
    sp.delta_wavelength = dl
    m.emission(pt, dr, sp)
    ne, te = _fields(ex, plasma, pt)
    if not integ.calls:
        ex.prove(ex.any([ne <= 0, te <= 0]), 'no-emission-only-for-non-positive-electron-density-or-temperature')
        return
    ex.cover('emitting')
    charged = [s_ for s_ in plasma.composition if s_.charge > 0]
    for i, (a, b, fne, fte, dens, chg) in enumerate(integ.calls):
        ok = [ex.eq(a, mn + dl * i), ex.eq(b, mn + dl * (i + 1)), ex.eq(fne, ne), ex.eq(fte, te), len(dens) == len(charged), len(chg) == len(charged)]
        for s_, d_, c_ in zip(charged, dens, chg):
            ok += [ex.eq(d_, _n(s_, pt)), ex.eq(c_, s_.charge)]
        ex.prove(ex.all(ok), 'bin-integrated-over-its-own-limits-with-the-local-plasma-state(charged-species-only)')
        ex.prove(ex.eq(sp.samples[i], ex.uf('bin_integral', mn + dl * i, mn + dl * (i + 1)) / dl), 'bin==integral/bin-width')
    ex.prove(len(integ.calls) == bins, 'one-integral-per-bin')
    # the integrand is the Hutchinson free-free expression with the provider's Gaunt factor
    f = m._brems_func
    wvl = ex.real('wavelength', pos=True)
    ex.assume(te > 0)
    val = f.evaluate(wvl)
    e, eps0, me, c, h = 1.602176634e-19, 8.8541878128e-12, 9.1093837015e-31, 299792458.0, 6.62607015e-34
    const = (e * e / (4 * math.pi * eps0)) ** 3 * 32 * math.pi ** 2 / (3 * math.sqrt(3) * me ** 2 * c ** 3) * math.sqrt(2 * me / (math.pi * e)) * c * 1e9 / (4 * math.pi)
    ex.prove(abs(mod.BREMS_CONST / const - 1) < 1e-9, 'Hutchinson-constant==assembled-from-CODATA-values')
    acc = 0
    for s_ in charged:
        n_s = _n(s_, pt)
        acc = acc + ex.ite(n_s > 0, n_s * ex.uf('gaunt_ff', s_.charge, te, wvl, nonneg=True) * s_.charge * s_.charge, 0)
    hce = h * c * 1e9 / e
    want = mod.BREMS_CONST / (MATH.sqrt(te) * wvl * wvl) * ne * acc * MATH.exp(-mod.EXP_FACTOR / (te * wvl))
    ex.prove(ex.eq(val, want), 'integrand==C*ne*sum(Z^2*ni*g_ff)/(sqrt(Te)*lambda^2)*exp(-hc/(lambda*Te))')
    ex.prove(abs(mod.EXP_FACTOR / hce - 1) < 1e-12, 'exponent-constant==hc/e*1e9')
    ex.sample({'bins': bins, 'charged_species': len(charged)})

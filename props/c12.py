"""C12 — EFIT equilibrium: flux-function mapping, LCFS mask, field and flux-coordinate basis (efit.pyx, mappers.pyx, clamp.pyx translated)."""
import math
import numpy as np

from symx.harness import harness
from symx import core, rs_model
from symx.core import MATH
from symx.universe import Universe

EFIT = 'cherab.tools.equilibrium.efit'


# ------------------------------------------------------------------------------------------------ stubs (contracts)
class LinInterp2(rs_model.Function2D):
    """raysect Interpolator2DArray('cubic', extrapolation 'none') by contract: a *linear* functional of the node data whose weights
    W_ij(x, y) depend on the axes and the point only and sum to one (cubic Hermite interpolation with finite-difference slopes has
    exactly this form); ValueError outside the grid.  Symbolic run: W_ij are uninterpreted functions with sum_ij W_ij(x, y) = 1.
    Float replay: the bilinear weights (one concrete member of the class)."""
    made = []

    def __init__(self, x, y, f, kind='cubic', extrap='none', rx=0, ry=0):
        self.x, self.y, self.f = np.asarray(x), np.asarray(y), np.asarray(f)
        self.kind, self.extrap = kind, extrap
        if self.f.shape != (len(self.x), len(self.y)):
            raise ValueError('interpolator: data shape does not match the axes')
        LinInterp2.made.append(self)

    def weights(self, px, py):
        ex = core.CUR
        nx, ny = len(self.x), len(self.y)
        if ex.sym:
            w = [[ex.uf('W_%d_%d' % (i, j), px, py) for j in range(ny)] for i in range(nx)]
            tot = 0
            for i in range(nx):
                for j in range(ny):
                    tot = tot + w[i][j]
            ex.assume(ex.eq(tot, 1))
            return w
        got = [[ex.uf_lookup('W_%d_%d' % (i, j), px, py) for j in range(ny)] for i in range(nx)]
        if all(v is not None for row in got for v in row):
            return got      # the weights of the counterexample model
        w = [[0.0] * ny for _ in range(nx)]
        xs, ys = [float(v) for v in self.x], [float(v) for v in self.y]
        i = max(0, min(nx - 2, max(k for k in range(nx) if xs[k] <= px or k == 0)))
        j = max(0, min(ny - 2, max(k for k in range(ny) if ys[k] <= py or k == 0)))
        tx, ty = (px - xs[i]) / (xs[i + 1] - xs[i]), (py - ys[j]) / (ys[j + 1] - ys[j])
        w[i][j], w[i + 1][j], w[i][j + 1], w[i + 1][j + 1] = (1 - tx) * (1 - ty), tx * (1 - ty), (1 - tx) * ty, tx * ty
        return w

    def evaluate(self, px, py):
        if self.extrap == 'none':
            if px < self.x[0] or px > self.x[len(self.x) - 1] or py < self.y[0] or py > self.y[len(self.y) - 1]:
                raise ValueError('The specified value is outside of interpolation range (extrapolation not enabled).')
        w = self.weights(px, py)
        tot = 0
        for i in range(len(self.x)):
            for j in range(len(self.y)):
                tot = tot + w[i][j] * self.f[i, j]
        return tot


def _key(a):
    return '|'.join(str(core.lift_real(v)) if core.is_sym(v) else repr(float(v)) for v in np.asarray(a).ravel())


class Interp1(rs_model.Function1D):
    """raysect Interpolator1DArray by contract: some function of the abscissa determined by the (x, f) node data"""
    names = {}

    def __init__(self, x, f, kind='cubic', extrap='none', rng=0):
        k = (_key(x), _key(f), kind, extrap)
        self.name = Interp1.names.setdefault(k, 'I1_%d' % len(Interp1.names))

    def evaluate(self, px):
        return core.CUR.uf(self.name, px)


class PolyMask(rs_model.Function2D):
    """cherab PolygonMask2D by contract: 1.0 inside its polygon, 0.0 outside (an uninterpreted 0/1 function of the point per polygon)"""
    names = {}

    def __init__(self, vertices):
        v = np.asarray(vertices)
        if v.ndim != 2 or v.shape[1] != 2:
            raise ValueError('The vertex array must have dimensions Nx2.')
        self.vertices = v
        self.name = PolyMask.names.setdefault(_key(v), 'POLY_%d' % len(PolyMask.names))

    def evaluate(self, px, py):
        ex = core.CUR
        if not ex.sym:
            m = ex.uf_lookup(self.name, px, py)
            return m if m is not None else (1.0 if ex.uf(self.name, px, py) > 1.5 else 0.0)
        m = ex.uf(self.name, px, py)
        ex.assume(ex.any([ex.eq(m, 0), ex.eq(m, 1)]))
        return m


class Blend2(rs_model.Function2D):
    """raysect float Blend2D (source transcribed): (1 - t) f1 + t f2 with t = clamp(mask, 0, 1); end points sampled directly"""
    vector = False

    def __init__(self, f1, f2, mask):
        aw = rs_model._VEC_FN['autowrap_function2d'] if self.vector else rs_model._FLOAT_FN['autowrap_function2d']
        self._f1, self._f2 = aw(f1), aw(f2)
        self._mask = rs_model._FLOAT_FN['autowrap_function2d'](mask)

    def evaluate(self, x, y):
        t = rs_model.clamp(self._mask.evaluate(x, y), 0.0, 1.0)
        if t == 0:
            return self._f1.evaluate(x, y)
        if t == 1:
            return self._f2.evaluate(x, y)
        a, b = self._f1.evaluate(x, y), self._f2.evaluate(x, y)
        if self.vector:
            return rs_model.Vector3D((1 - t) * a.x + t * b.x, (1 - t) * a.y + t * b.y, (1 - t) * a.z + t * b.z)
        return (1 - t) * a + t * b


class VBlend2(Blend2, rs_model.VectorFunction2D):
    vector = True


def _universe():
    LinInterp2.made = []
    Interp1.names = {}
    PolyMask.names = {}
    return Universe(stubs={'Interpolator2DArray': LinInterp2, 'Interpolator1DArray': Interp1, 'PolygonMask2D': PolyMask,
                           ('raysect.core.math.function.float', 'Blend2D'): Blend2, ('raysect.core.math.function.vector3d', 'Blend2D'): VBlend2})


# ------------------------------------------------------------------------------------------------ a symbolic equilibrium
class Eq:
    def __init__(self, ex, uni, nr, nz):
        self.ex = ex
        mod = self.mod = uni.load(EFIT)
        K = mod.EFITEquilibrium
        K._generate_psin_to_r_mapping = lambda self_: setattr(self_, 'psin_to_r', None)
        r0, dr = ex.real('r0', pos=True), ex.real('dr', pos=True)
        z0, dz = ex.real('z0'), ex.real('dz', pos=True)
        self.dr, self.dz = dr, dz
        self.r = [r0 + i * dr if i else r0 for i in range(nr)]
        self.z = [z0 + j * dz if j else z0 for j in range(nz)]
        self.psi = [[ex.real('psi_%d_%d' % (i, j)) for j in range(nz)] for i in range(nr)]
        self.axis, self.lcfs = ex.real('psi_axis'), ex.real('psi_lcfs')
        ex.assume(ex.not_(ex.eq(self.axis, self.lcfs)), 'psi_lcfs != psi_axis (either sign)')
        self.fprof = [[0.0, 0.5, 1.0], [ex.real('F_%d' % k) for k in range(3)]]
        qprof = [[0.0, 0.5, 1.0], [ex.real('q_%d' % k) for k in range(3)]]
        self.b0, self.rb = ex.real('b_vacuum_magnitude'), ex.real('b_vacuum_radius', pos=True)
        self.lcfs_poly = [[1.0, 2.0, 1.5], [0.0, 0.0, 1.0]]
        self.lim_poly = [[0.5, 3.0, 1.5], [-1.0, -1.0, 2.0]]
        P2 = uni.rs.Point2D
        del LinInterp2.made[:]
        self.obj = K(self.r, self.z, self.psi, self.axis, self.lcfs, P2(1.5, 0.25), [P2(1.2, -0.5)], [P2(1.1, -0.8), P2(1.4, -0.8)],
                     self.fprof, qprof, self.rb, self.b0, self.lcfs_poly, self.lim_poly, ex.real('time'))
        self.nr, self.nz = nr, nz

    def point(self, tag=''):
        ex = self.ex
        r, z = ex.real('r' + tag), ex.real('z' + tag)
        self.in_domain(r, z)
        return r, z

    def in_domain(self, r, z):
        self.ex.assume(self.ex.all([self.r[0] <= r, r <= self.r[-1], self.z[0] <= z, z <= self.z[-1]]), 'point inside the (r, z) grid domain')

    def W(self, r, z):
        return [[self.ex.uf('W_%d_%d' % (i, j), r, z) for j in range(self.nz)] for i in range(self.nr)] if self.ex.sym else \
            LinInterp2(self.r, self.z, np.zeros((self.nr, self.nz))).weights(r, z)

    def lin(self, data, r, z):
        w = self.W(r, z)
        tot = 0
        for i in range(self.nr):
            for j in range(self.nz):
                tot = tot + w[i][j] * (data[i, j] if isinstance(data, np.ndarray) else data[i][j])
        return tot

    def psin_raw(self, r, z):
        d = self.lcfs - self.axis
        return self.lin([[(self.psi[i][j] - self.axis) / d for j in range(self.nz)] for i in range(self.nr)], r, z)

    def psin(self, r, z):
        v = self.psin_raw(r, z)
        return self.ex.ite(v < 0, 0.0, v)

    def poly(self, which, r, z):
        v = np.ascontiguousarray(np.array(self.lcfs_poly if which == 'lcfs' else self.lim_poly, dtype=np.float64).transpose())
        return PolyMask(v).evaluate(r, z)

    def inside(self, r, z):
        return self.ex.all([self.poly('lcfs', r, z) > 0, self.ex.le(self.psin(r, z), 1.0)])

    def dpsi(self):
        """second-order finite differences of psi on the uniform grid (central inside, one-sided 3-point at the edges)"""
        nr, nz, p = self.nr, self.nz, self.psi

        def d1(get, n, k, h):
            if k == 0:
                return (-3 * get(0) + 4 * get(1) - get(2)) / (2 * h)
            if k == n - 1:
                return (3 * get(n - 1) - 4 * get(n - 2) + get(n - 3)) / (2 * h)
            return (get(k + 1) - get(k - 1)) / (2 * h)
        dr_ = [[d1(lambda i_, j=j: p[i_][j], nr, i, self.dr) for j in range(nz)] for i in range(nr)]
        dz_ = [[d1(lambda j_, i=i: p[i][j_], nz, j, self.dz) for j in range(nz)] for i in range(nr)]
        return dr_, dz_

    def field(self, r, z):
        dr_, dz_ = self.dpsi()
        br = -self.lin(dz_, r, z) / r
        bz = self.lin(dr_, r, z) / r
        return br, bz


GRIDS_Q = [{'nr': 3, 'nz': 3}]
GRIDS_T = [{'nr': 3, 'nz': 3}, {'nr': 4, 'nz': 3}, {'nr': 3, 'nz': 4}, {'nr': 4, 'nz': 4}]
COMMON = dict(
    bounds={'grid': 'nr x nz psi nodes, concrete per job (3x3 quick; up to 4x4 thorough); uniform axes with symbolic origin and spacing',
            'values': 'psi node values, psi_axis != psi_lcfs (either sign), F profile, vacuum field, evaluation point (inside the grid domain), profiles '
                      '(uninterpreted functions / symbolic 2x3 arrays), outside values all symbolic'},
    stubs=['Interpolator2DArray: linear functional of the node data with uninterpreted weights W_ij(r, z), sum_ij W_ij = 1, ValueError outside the grid',
           'Interpolator1DArray: uninterpreted function determined by its (x, f) data', 'PolygonMask2D: uninterpreted 0/1 function per polygon',
           'raysect Blend2D (float / vector3d): transcribed from its source', 'numpy.gradient on symbolic arrays: numpy\'s formulae (validated against numpy)',
           'EFITEquilibrium._generate_psin_to_r_mapping: skipped'],
    outside=['the cubic interpolation weights themselves (raysect)', 'point-in-polygon test (raysect / PolygonMask2D)', 'psin_to_r', 'floating-point rounding',
             'the bundled example / Generomak equilibria as data: the claim is for every psi grid of the stated sizes, which includes them only up to grid size'])


@harness('C12', name='flux_mapping', universe=_universe, tiers={'quick': GRIDS_Q, 'thorough': GRIDS_T},
         functions=[EFIT + '.EFITEquilibrium.__init__', EFIT + '.EFITEquilibrium.map2d', EFIT + '.EFITEquilibrium.map3d', EFIT + '.EFITLCFSMask.evaluate',
                    'cherab.core.math.mappers.IsoMapper2D', 'cherab.core.math.mappers.AxisymmetricMapper', 'cherab.core.math.clamp.ClampOutput2D'],
         cover=['inside-lcfs', 'outside-lcfs'], **COMMON)
def flux_mapping(ex, uni, nr, nz):
    e = Eq(ex, uni, nr, nz)
    q = e.obj
    r, z = e.point()
    psi = q.psi(r, z)
    ex.prove(ex.eq(psi, e.lin(e.psi, r, z)), 'psi==interpolated-psi-grid')
    pn = q.psi_normalised(r, z)
    ex.prove(ex.le(0, pn), 'normalised-flux-never-negative')
    ex.prove(ex.eq(pn, e.psin(r, z)), 'psi_n==max(0,(psi-psi_axis)/(psi_lcfs-psi_axis))')
    ex.prove(ex.eq(e.psin_raw(r, z) * (e.lcfs - e.axis), psi - e.axis), 'normalised-grid-consistent-with-psi', using=[])
    ins = q.inside_lcfs(r, z)
    inside = bool(ins)
    ex.prove(ex.eq(1 if inside else 0, ex.ite(e.inside(r, z), 1, 0)), 'inside_lcfs==polygon-and-psi_n<=1')
    ex.cover('inside-lcfs' if inside else 'outside-lcfs')
    lim = q.inside_limiter(r, z)
    ex.prove(ex.eq(lim, e.poly('limiter', r, z)), 'inside_limiter==limiter-polygon')
    out = ex.real('value_outside')
    # profile given as a function
    f2 = q.map2d(lambda x: ex.uf('PROFILE', x), out)
    got = f2(r, z)
    want = ex.uf('PROFILE', e.psin(r, z)) if inside else out
    ex.prove(ex.eq(got, want), 'map2d(function)==profile(psi_n)-inside,outside-value-elsewhere')
    # profile given as a 2xN array
    arr = [[0.0, 0.5, 1.0], [ex.real('p_%d' % k) for k in range(3)]]
    f2a = q.map2d(arr, out)
    wanta = Interp1(arr[0], arr[1], 'cubic', 'none', 0).evaluate(e.psin(r, z)) if inside else out
    ex.prove(ex.eq(f2a(r, z), wanta), 'map2d(array)==interpolated-profile(psi_n)-inside,outside-value-elsewhere')
    # default outside value is zero
    f2d = q.map2d(lambda x: ex.uf('PROFILE', x))
    ex.prove(ex.eq(f2d(r, z), ex.uf('PROFILE', e.psin(r, z)) if inside else 0.0), 'map2d-default-outside-value==0')
    ex.sample({'grid': [nr, nz], 'inside': inside})


@harness('C12', name='axisymmetry', universe=_universe, tiers={'quick': GRIDS_Q, 'thorough': GRIDS_Q},
         functions=[EFIT + '.EFITEquilibrium.map3d', EFIT + '.EFITEquilibrium.map_vector3d', 'cherab.core.math.mappers.AxisymmetricMapper',
                    'cherab.core.math.mappers.VectorAxisymmetricMapper'],
         cover=['evaluated'], **COMMON)
def axisymmetry(ex, uni, nr, nz):
    e = Eq(ex, uni, nr, nz)
    q = e.obj
    x, y, z = ex.real('x'), ex.real('y'), ex.real('zz')
    ex.assume(x * x + y * y > 0, 'off the symmetry axis')
    rad = MATH.sqrt(x * x + y * y)
    e.in_domain(rad, z)
    out = ex.real('value_outside')
    prof = lambda s: ex.uf('PROFILE', s)
    f3 = q.map3d(prof, out)
    f2 = q.map2d(prof, out)
    ex.cover('evaluated')
    ex.prove(ex.eq(f3(x, y, z), f2(rad, z)), 'map3d(x,y,z)==map2d(sqrt(x^2+y^2),z)')
    # a second point at the same (r, z) but another toroidal angle gives the same value
    x2, y2 = ex.real('x2'), ex.real('y2')
    ex.assume(ex.eq(x2 * x2 + y2 * y2, x * x + y * y), 'second point at the same major radius')
    ex.lemma(ex.eq(MATH.sqrt(x2 * x2 + y2 * y2), rad), 'same-radius')
    ex.prove(ex.eq(f3(x2, y2, z), f3(x, y, z)), 'map3d-independent-of-toroidal-angle')
    # vectors: cylindrical components of the 3D vector are the components of the 2D one
    ov = uni.rs.Vector3D(ex.real('ox'), ex.real('oy'), ex.real('oz'))
    fn = lambda name: (lambda s: ex.uf(name, s))
    v3 = q.map_vector3d(fn('TOR'), fn('POL'), fn('NOR'), ov)(x, y, z)
    v2 = q.map_vector2d(fn('TOR'), fn('POL'), fn('NOR'), ov)(rad, z)
    ex.prove(ex.all([ex.eq(v3.x * rad, v2.x * x - v2.y * y), ex.eq(v3.y * rad, v2.x * y + v2.y * x), ex.eq(v3.z, v2.z)]),
             'map_vector3d==map_vector2d-rotated-by-the-toroidal-angle', abstract=[v2.x, v2.y, v2.z])
    ex.sample({'grid': [nr, nz]})


@harness('C12', name='field_and_basis', universe=_universe, tiers={'quick': GRIDS_Q, 'thorough': GRIDS_T},
         functions=[EFIT + '.MagneticField.evaluate', EFIT + '.PoloidalFieldVector.evaluate', EFIT + '.FluxSurfaceNormal.evaluate',
                    EFIT + '.FluxCoordToCartesian.evaluate', EFIT + '.EFITEquilibrium._calculate_differentials', EFIT + '.EFITEquilibrium.map_vector2d'],
         cover=['in-plane-field', 'no-in-plane-field', 'inside-lcfs', 'outside-lcfs'], **COMMON)
def field_and_basis(ex, uni, nr, nz):
    e = Eq(ex, uni, nr, nz)
    q = e.obj
    r, z = e.point()
    b = q.b_field(r, z)
    inside = bool(e.inside(r, z))
    ex.cover('inside-lcfs' if inside else 'outside-lcfs')
    # node data handed to the two derivative interpolators (3rd and 4th Interpolator2DArray built by __init__)
    ex.prove(len(LinInterp2.made) >= 4, 'four-2D-interpolators-built(psi,psi_n,dpsi_dr,dpsi_dz)')
    gdr, gdz = LinInterp2.made[2].f, LinInterp2.made[3].f
    dr_, dz_ = e.dpsi()
    for i in range(nr):
        for j in range(nz):
            ex.prove(ex.all([ex.eq(gdr[i, j], dr_[i][j]), ex.eq(gdz[i, j], dz_[i][j])]), 'derivative-grids==second-order-finite-differences-of-psi')
    ex.prove(ex.all([ex.eq(b.x, -e.lin(gdz, r, z) / r), ex.eq(b.z, e.lin(gdr, r, z) / r)]), 'B_r==-dpsi/dz/r,B_z==dpsi/dr/r')
    bt = Interp1(e.fprof[0], e.fprof[1], 'cubic', 'none', 0).evaluate(e.psin(r, z)) / r if inside else e.b0 * e.rb / r
    ex.prove(ex.eq(b.y, bt), 'B_toroidal==F(psi_n)/r-inside,vacuum-field-outside')
    t, p, n = q.toroidal_vector(r, z), q.poloidal_vector(r, z), q.surface_normal(r, z)
    ex.prove(ex.all([ex.eq(t.x, 0), ex.eq(t.y, 1), ex.eq(t.z, 0)]), 'toroidal-vector==(0,1,0)')
    zero = bool(ex.all([ex.eq(b.x, 0), ex.eq(b.z, 0)]))
    fn = lambda name: (lambda s: ex.uf(name, s))
    ov = uni.rs.Vector3D(ex.real('ox'), ex.real('oy'), ex.real('oz'))
    v = q.map_vector2d(fn('TOR'), fn('POL'), fn('NOR'), ov)(r, z)
    v0 = q.map_vector2d(fn('TOR'), fn('POL'), fn('NOR'))(r, z)
    pn = e.psin(r, z)
    tor, pol, nor = ex.uf('TOR', pn), ex.uf('POL', pn), ex.uf('NOR', pn)
    AB = [b.x, b.z]
    if not inside:
        ex.prove(ex.all([ex.eq(v.x, ov.x), ex.eq(v.y, ov.y), ex.eq(v.z, ov.z)]), 'map_vector2d==outside-value-outside-the-lcfs')
        ex.prove(ex.all([ex.eq(v0.x, 0), ex.eq(v0.y, 0), ex.eq(v0.z, 0)]), 'map_vector2d-default-outside-value==zero-vector')
    if zero:
        ex.cover('no-in-plane-field')
        ex.prove(ex.all([ex.eq(c, 0) for vec in (p, n) for c in vec]), 'degenerate-point:poloidal-and-normal-vectors-are-zero')
        if inside:
            ex.prove(ex.all([ex.eq(v.x, 0), ex.eq(v.y, tor), ex.eq(v.z, 0)]), 'degenerate-point:mapped-vector-is-purely-toroidal')
        return
    ex.cover('in-plane-field')
    dot = lambda a, c: a.x * c.x + a.y * c.y + a.z * c.z
    ex.prove(ex.all([ex.eq(dot(p, p), 1), ex.eq(dot(n, n), 1), ex.eq(dot(t, t), 1)]), 'basis-vectors-are-unit', abstract=AB)
    ex.prove(ex.all([ex.eq(dot(p, n), 0), ex.eq(dot(p, t), 0), ex.eq(dot(n, t), 0)]), 'basis-vectors-are-orthogonal', abstract=AB)
    c = p.cross(t)
    ex.prove(ex.all([ex.eq(n.x, c.x), ex.eq(n.y, c.y), ex.eq(n.z, c.z)]), 'normal==poloidal-x-toroidal', abstract=AB)
    ex.prove(ex.all([ex.eq(p.x * b.z, p.z * b.x), p.x * b.x + p.z * b.z > 0, ex.eq(p.y, 0)]), 'poloidal-vector-along-the-in-plane-field', abstract=AB)
    ex.prove(ex.eq(dot(b, n), 0), 'field-has-no-component-along-the-surface-normal', abstract=AB + [b.y])
    if inside:
        ex.prove(ex.all([ex.eq(dot(v, t), tor), ex.eq(dot(v, p), pol), ex.eq(dot(v, n), nor)]),
                 'mapped-vector-has-the-prescribed-toroidal,poloidal,normal-components', abstract=AB + [tor, pol, nor])
        ex.prove(ex.all([ex.eq(v0.x, v.x), ex.eq(v0.y, v.y), ex.eq(v0.z, v.z)]), 'outside-value-does-not-matter-inside')
    ex.sample({'grid': [nr, nz], 'inside': inside})

"""Shared symbolic plasma environment for the emission-model properties (C03, C05, C04, C01): species with uninterpreted
density / temperature / velocity fields, an atomic-data provider whose rates are uninterpreted functions tagged by what was
requested, a recording line shape, and light Plasma / Beam stand-ins."""
import types

from symx import core, rs_model
from cherab.core.utility.notify import Notifier   # pure python, the real class


class El:
    def __init__(self, name, z, weight=None):
        self.name, self.symbol, self.atomic_number, self.atomic_weight = name, name, z, weight or 2.0 * z

    def __repr__(self):
        return self.name


class Line:
    def __init__(self, element, charge, transition):
        self.element, self.charge, self.transition = element, charge, transition


class Dist:
    """distribution function: fields are uninterpreted functions of position, tagged by species"""
    def __init__(self, ex, tag, moving=True, pointwise=True):
        """pointwise: fields are plain symbols (one evaluation point per run, values appear in counterexample models);
        otherwise uninterpreted functions of position"""
        self.ex, self.tag, self.moving, self.pointwise = ex, tag, moving, pointwise
        self._v = {}

    def _sym(self, name):
        if name not in self._v:
            self._v[name] = self.ex.real(name)
        return self._v[name]

    def density(self, x, y, z):
        if self.pointwise:
            return self._sym('n_' + self.tag)
        return self.ex.uf('n_' + self.tag, x, y, z)

    def effective_temperature(self, x, y, z):
        if self.pointwise:
            return self._sym('T_' + self.tag)
        return self.ex.uf('T_' + self.tag, x, y, z)

    def bulk_velocity(self, x, y, z):
        if not self.moving:
            return rs_model.Vector3D(0.0, 0.0, 0.0)
        if self.pointwise:
            return rs_model.Vector3D(*[self._sym('v%s_%s' % (c, self.tag)) for c in 'xyz'])
        return rs_model.Vector3D(*[self.ex.uf('v%s_%s' % (c, self.tag), x, y, z) for c in 'xyz'])


class Species:
    def __init__(self, ex, element, charge, moving=True):
        self.element, self.charge = element, charge
        self.tag = '%s%d' % (element.name, charge)
        self.distribution = Dist(ex, self.tag, moving)

    def __repr__(self):
        return '<Species %s>' % self.tag


class Composition:
    def __init__(self, species):
        self._s = list(species)

    def __iter__(self):
        return iter(self._s)

    def __len__(self):
        return len(self._s)

    def get(self, element, charge):
        for s in self._s:
            if s.element is element and s.charge == charge:
                return s
        raise ValueError('Could not find a species with the specified element and charge.')


class Rate:
    """rate object: evaluate() is an uninterpreted function named after what was requested; arguments are logged"""
    def __init__(self, ex, name, nonneg=True):
        self.ex, self.name, self.nonneg, self.calls = ex, name, nonneg, []

    def evaluate(self, *a):
        self.calls.append(a)
        return self.ex.uf(self.name, *a, nonneg=self.nonneg)

    def __call__(self, *a):
        return self.evaluate(*a)


class AtomicData:
    """provider stub: every accessor hands out a Rate tagged with (accessor, arguments); requests are logged"""
    def __init__(self, ex, tag='ad'):
        self.ex, self.tag, self.requests, self.rates = ex, tag, [], {}

    def _rate(self, kind, *key):
        name = '%s_%s_%s' % (self.tag, kind, '_'.join(_kstr(k) for k in key))
        self.requests.append((kind,) + key)
        if name not in self.rates:
            self.rates[name] = Rate(self.ex, name)
        return self.rates[name]

    def wavelength(self, element, charge, transition):
        self.requests.append(('wavelength', element, charge, transition))
        return 400.0 + 10.0 * element.atomic_number + charge

    def __getattr__(self, kind):
        if kind.startswith('_'):
            raise AttributeError(kind)

        def acc(*key):
            if kind == 'beam_cx_pec':
                return [self._rate(kind + str(m), *key) for m in range(getattr(self, 'n_metastables', 2))]
            return self._rate(kind, *key)
        return acc


def _kstr(k):
    if isinstance(k, El):
        return k.name
    if isinstance(k, tuple):
        return 'x'.join(str(x) for x in k)
    return str(k)


class PlasmaStub:
    def __init__(self, ex, species, b_field=None):
        self.ex = ex
        self.notifier = Notifier()
        self._composition = Composition(species)
        self.electron_distribution = Dist(ex, 'e')
        self._b = b_field

    composition = property(lambda s: s._composition)

    def get_composition(self):
        return self._composition

    def get_electron_distribution(self):
        return self.electron_distribution

    def get_b_field(self):
        return self._b

    b_field = property(lambda s: s._b)


def make_recording_lineshape(base):
    class RecordingLine(base):
        created = []

        def __init__(self, line, wavelength, target_species, plasma, atomic_data, *a, **k):
            self.ctor = (line, wavelength, target_species, plasma, atomic_data, a, k)
            self.calls = []
            RecordingLine.created.append(self)

        def add_line(self, radiance, point, direction, spectrum):
            self.calls.append((radiance, point, direction))
            return spectrum
    RecordingLine.created = []
    return RecordingLine

"""C11 — inversion solvers (sart.pyx translated; nnls.py / lstsq.py / svd.py from source with library contracts)."""
import random
import numpy as np

from symx.harness import harness
from symx import core
from symx.core import MATH
from symx.universe import Universe

SART = 'cherab.tools.inversions.sart'


def _mat(ex, name, m, n, nonneg=False):
    a = np.empty((m, n), dtype=object if ex.sym else float)
    for i in range(m):
        for j in range(n):
            a[i, j] = ex.real('%s_%d_%d' % (name, i, j), nonneg=nonneg)
    return a


def _vec(ex, name, n, nonneg=False):
    a = np.empty(n, dtype=object if ex.sym else float)
    for i in range(n):
        a[i] = ex.real('%s_%d' % (name, i), nonneg=nonneg)
    return a


def _dot(a, b):
    r = 0
    for x, y in zip(a, b):
        r = r + x * y
    return r


def _sart_step(ex, W, b, x, relax, pen):
    """documented update rule x_l + w/W(+,l) * sum_k W(k,l)/W(k,+) (b_k - yhat_k) [- penalty], clipped at zero.
    The case distinctions (zero-length ray, cell without rays, negative value) are taken with Python `if` on the proxies:
    on the path under test they are already decided by the path condition, so no new paths appear."""
    m, n = W.shape
    yhat = [_dot(W[i, :], x) for i in range(m)]
    rowsum = [sum(W[i, 1:], W[i, 0]) for i in range(m)]
    colsum = [sum(W[1:, j], W[0, j]) for j in range(n)]
    new = []
    for j in range(n):
        if colsum[j] > 0:
            acc = 0
            for i in range(m):
                if rowsum[i] == 0:
                    continue
                acc = acc + W[i, j] * (1 / rowsum[i]) * (b[i] - yhat[i])
            upd = x[j] + relax / colsum[j] * acc
        else:
            upd = x[j]
        if pen is not None:
            upd = upd - pen[j]
        if upd < 0:
            upd = 0.0
        new.append(upd)
    return new


def _validate_sart(uni, m, n, iters, constrained):
    from cherab.tools.inversions import invert_sart, invert_constrained_sart
    tr = uni.load(SART)
    rnd = random.Random(m * 10 + n)
    cases = 0
    for _ in range(10):
        W = np.array([[rnd.choice([0.0, rnd.uniform(0, 2)]) for _ in range(n)] for _ in range(m)])
        b = np.array([rnd.uniform(0, 3) for _ in range(m)])
        x0 = np.array([rnd.uniform(0, 2) for _ in range(n)])
        L = np.array([[rnd.uniform(-1, 1) for _ in range(n)] for _ in range(n)])
        with np.errstate(all='ignore'):
            if constrained:
                r1 = invert_constrained_sart(W, L, b, initial_guess=x0.copy(), max_iterations=iters, beta_laplace=0.05)
                r2 = tr.invert_constrained_sart(W, L, b, initial_guess=x0.copy(), max_iterations=iters, beta_laplace=0.05)
            else:
                r1 = invert_sart(W, b, initial_guess=x0.copy(), max_iterations=iters)
                r2 = tr.invert_sart(W, b, initial_guess=x0.copy(), max_iterations=iters)
        if not np.allclose(r1[0], np.array(r2[0], dtype=float), rtol=1e-9, atol=1e-12, equal_nan=True) or \
                not np.allclose(r1[1], np.array(r2[1], dtype=float), rtol=1e-9, atol=1e-12, equal_nan=True):
            raise core.HarnessError('translator validation failed for sart: %r vs %r' % (r1, r2))
        cases += 1
    return cases


SHAPES_Q = [(2, 2, 1), (1, 2, 2), (2, 1, 2), (1, 1, 3)]
SHAPES_T = SHAPES_Q + [(2, 2, 2), (3, 2, 1), (2, 3, 1), (1, 2, 3), (2, 1, 3)]


@harness('C11', name='sart',
         tiers={'quick': [{'m': m, 'n': n, 'iters': k, 'constrained': c} for (m, n, k) in SHAPES_Q for c in (False, True)],
                'thorough': [{'m': m, 'n': n, 'iters': k, 'constrained': c} for (m, n, k) in SHAPES_T for c in (False, True)]},
         functions=[SART + '.invert_sart', SART + '.invert_constrained_sart'], validate=_validate_sart,
         cover=['ran-to-max-iterations'],
         bounds={'shape': 'm observations x n cells and max_iterations concrete per job (<=2x2x2 quick, <=3 thorough)',
                 'values': 'weights >= 0 (zero rows / columns included), measurements, initial guess, relaxation, '
                           'beta_laplace, Laplacian, conv_tol symbolic reals'},
         stubs=['numpy: object arrays; 1/ray_lengths keeps z3 total division (the value for a zero row is never used)'],
         outside=['floating-point rounding', 'more iterations than the bound (the update is the same code each iteration)'])
def sart(ex, uni, m, n, iters, constrained):
    ex.div_policy = 'total'
    ex.branch_ms = 300
    mod = uni.load(SART)
    W = _mat(ex, 'W', m, n, nonneg=True)
    b = _vec(ex, 'b', m)
    x0 = _vec(ex, 'x0', n)
    relax = ex.real('relaxation', pos=True)
    tol = ex.real('conv_tol', pos=True)
    ex.assume(_dot(b, b) > 0, 'non-zero measurement vector (the convergence ratio divides by |b|^2)')
    x_in = x0.copy()
    if constrained:
        L = _mat(ex, 'L', n, n)
        beta = ex.real('beta_laplace', nonneg=True)
        sol, conv = mod.invert_constrained_sart(W, L, b, initial_guess=x_in, max_iterations=iters, relaxation=relax,
                                                beta_laplace=beta, conv_tol=tol)
    else:
        sol, conv = mod.invert_sart(W, b, initial_guess=x_in, max_iterations=iters, relaxation=relax, conv_tol=tol)
    done = len(conv)
    ex.prove(1 <= done <= iters, 'iteration-count-within-limit')
    if done == iters:
        ex.cover('ran-to-max-iterations')
    # oracle iterates
    x = list(x0)
    ratios = []
    bb = _dot(b, b)
    for k in range(done):
        pen = None
        if constrained:
            pen = [_dot(L[j, :], x) * beta for j in range(n)]
        x = _sart_step(ex, W, b, x, relax, pen)
        yh = [_dot(W[i, :], x) for i in range(m)]
        ratios.append((bb - _dot(yh, yh)) / bb)
    for j in range(n):
        ex.prove(ex.eq(sol[j], x[j]), 'solution==documented-update-rule-applied-k-times')
        ex.prove(ex.le(0, sol[j]), 'solution-non-negative')
    for k in range(done):
        ex.prove(ex.eq(conv[k], ratios[k]), 'convergence-entry==(|b|^2-|Wx|^2)/|b|^2')
    # stopping rule: stop at the first k >= 1 with |c_k - c_{k-1}| < tol, else run to the limit
    for k in range(1, done):
        d = ratios[k] - ratios[k - 1]
        small = ex.all([d < tol, -d < tol])
        if k < done - 1:
            ex.prove(ex.not_(small), 'no-early-stop-missed')
        elif done < iters:
            ex.prove(small, 'stopped-only-when-converged')
        else:
            pass
    if done == 1 and iters > 1:
        ex.prove(False, 'never-stops-after-first-iteration')
    ex.sample({'m': m, 'n': n, 'iterations_done': done, 'constrained': constrained})


@harness('C11', name='sart_fixed_point',
         tiers={'quick': [{'m': m, 'n': n, 'iters': k, 'constrained': c} for (m, n, k) in ((2, 2, 2), (1, 2, 2), (2, 1, 2)) for c in (False, True)],
                'thorough': [{'m': m, 'n': n, 'iters': k, 'constrained': c} for (m, n, k) in ((2, 2, 3), (3, 2, 2), (2, 3, 2)) for c in (False, True)]},
         functions=[SART + '.invert_sart', SART + '.invert_constrained_sart'], cover=['fixed-point-run'],
         bounds={'shape': 'm x n x iterations concrete per job'},
         stubs=['numpy: object arrays'], outside=['floating-point rounding'])
def sart_fixed_point(ex, uni, m, n, iters, constrained):
    """an exact non-negative solution (with zero Laplacian penalty) is a fixed point of the iteration"""
    ex.div_policy = 'total'
    ex.branch_ms = 300
    mod = uni.load(SART)
    W = _mat(ex, 'W', m, n, nonneg=True)
    x0 = _vec(ex, 'x0', n, nonneg=True)
    relax = ex.real('relaxation', pos=True)
    tol = ex.real('conv_tol', pos=True)
    b = np.array([_dot(W[i, :], x0) for i in range(m)], dtype=object if ex.sym else float)   # b := W x0
    ex.assume(_dot(b, b) > 0, 'non-zero measurement vector')
    if constrained:
        L = _mat(ex, 'L', n, n)
        beta = ex.real('beta_laplace', nonneg=True)
        for j in range(n):
            ex.assume(_dot(L[j, :], x0) == 0, 'L x0 = 0')
        sol, conv = mod.invert_constrained_sart(W, L, b, initial_guess=x0.copy(), max_iterations=iters,
                                                relaxation=relax, beta_laplace=beta, conv_tol=tol)
    else:
        sol, conv = mod.invert_sart(W, b, initial_guess=x0.copy(), max_iterations=iters, relaxation=relax, conv_tol=tol)
    ex.cover('fixed-point-run')
    for j in range(n):
        ex.prove(ex.eq(sol[j], x0[j]), 'exact-solution-is-fixed-point')
    ex.sample({'m': m, 'n': n, 'iterations_done': len(conv)})


# ---------------------------------------------------------------------------------------------- library wrappers
def _reg_universe():
    return Universe()


def _objective_grad(W, b, L, alpha, x):
    """gradient/2 of |Wx-b|^2 + alpha^2 |Lx|^2 : W^T (W x - b) + alpha^2 L^T L x"""
    m, n = W.shape
    r = [_dot(W[i, :], x) - b[i] for i in range(m)]
    Lx = [_dot(L[i, :], x) for i in range(L.shape[0])]
    g = []
    for j in range(n):
        g.append(_dot(W[:, j], r) + alpha * alpha * _dot(L[:, j], Lx))
    return g, r, Lx


@harness('C11', name='nnls_wrapper',
         tiers={'quick': [{'m': m, 'n': n, 'tik': t} for (m, n) in ((1, 1), (2, 1), (1, 2), (2, 2)) for t in (False, True)],
                'thorough': [{'m': m, 'n': n, 'tik': t} for (m, n) in ((1, 1), (2, 1), (1, 2), (2, 2), (3, 2), (2, 3)) for t in (False, True)]},
         functions=['cherab.tools.inversions.nnls.invert_regularised_nnls'], universe=_reg_universe,
         cover=['some-positive-measurement', 'no-positive-measurement'],
         bounds={'shape': 'm x n concrete per job', 'values': 'W, b, alpha, Tikhonov matrix symbolic'},
         stubs=['scipy.optimize.nnls(A, y): contract = returns x >= 0 with w = A^T(Ax - y) >= 0, x_j w_j = 0 (KKT) and rnorm = |Ax - y|, '
                'stated on the system rescaled by max(b) > 0 (stated lemma: the constrained argmin is invariant under positive rescaling)'],
         outside=['scipy NNLS internals', 'floating-point rounding'])
def nnls_wrapper(ex, uni, m, n, tik):
    mod = uni.load('cherab.tools.inversions.nnls')
    W = _mat(ex, 'W', m, n)
    b = _vec(ex, 'b', m)
    alpha = ex.real('alpha', nonneg=True)
    Lm = _mat(ex, 'T', n, n) if tik else None
    cap = {}
    sym = ex.sym
    # the normalisation constant the wrapper is documented to use: the largest measurement (if positive)
    from symx.rt import sx_max
    vm = sx_max([0.0] + list(b))
    if vm > 0:
        ex.cover('some-positive-measurement')
    else:
        ex.cover('no-positive-measurement')
        vm = 1.0

    def nnls(A, y, **kw):
        cap['A'], cap['y'] = A, y
        nn, mm = A.shape[1], A.shape[0]
        if sym:
            # contract, stated on the system rescaled by vm > 0 (the argmin is invariant under positive rescaling):
            # a := vm*A, ys := vm*y (fresh names), x >= 0, w = a^T(a x - ys) >= 0, x_j w_j = 0, rnorm*vm = |a x - ys|
            a = np.empty((mm, nn), dtype=object)
            ys = np.empty(mm, dtype=object)
            for i in range(mm):
                for jj in range(nn):
                    a[i, jj] = ex.real('a_%d_%d' % (i, jj))
                    ex.assume(a[i, jj] == A[i, jj] * vm, 'definition a = vm*A')
                ys[i] = ex.real('ys_%d' % i)
                ex.assume(ys[i] == y[i] * vm, 'definition ys = vm*y')
            cap['a'], cap['ys'] = a, ys
            x = np.array([ex.real('xs_%d' % jj, nonneg=True) for jj in range(nn)], dtype=object)
            res = [_dot(a[i, :], x) - ys[i] for i in range(mm)]
            facts = [x[jj] >= 0 for jj in range(nn)]
            for jj in range(nn):
                w = _dot(a[:, jj], res)
                facts += [w >= 0, x[jj] * w == 0]
            rs = ex.real('rnorm_scaled', nonneg=True)
            facts += [rs >= 0, rs * rs == _dot(res, res)]
            for f_ in facts:
                ex.assume(f_, 'nnls contract (KKT, rnorm) on the rescaled system')
            cap['facts'] = facts
            cap['rs'] = rs
            return x, rs / vm
        import scipy.optimize
        return scipy.optimize.nnls(np.array(A, dtype=float), np.array(y, dtype=float))

    class _Opt:
        pass
    sc = type('scipy_stub', (), {})()
    sc.optimize = _Opt()
    sc.optimize.nnls = nnls
    mod.scipy = sc
    try:
        x, rnorm = mod.invert_regularised_nnls(W, b, alpha=alpha, tikhonov_matrix=Lm)
    except (ValueError, ZeroDivisionError) as e:
        ex.prove(False, 'returns-a-minimiser-for-every-measurement-vector', info=str(e)[:100])
        return
    L = Lm if tik else np.identity(n)
    A, y = cap['A'], cap['y']
    ex.prove(tuple(A.shape) == (m + n, n) and tuple(np.shape(y)) == (m + n,), 'stacked-system-shape')
    Cexp = [[W[i, j] for j in range(n)] for i in range(m)] + [[alpha * L[i, j] for j in range(n)] for i in range(n)]
    dexp = [b[i] for i in range(m)] + [0.0] * n
    # what was handed to nnls is the stacked system (W; alpha L), (b; 0) divided by max(b)  [cut rule: proved, then used]
    hyp = list(cap.get('facts', []))
    for i in range(m + n):
        for j in range(n):
            ex.lemma(ex.eq(A[i, j] * vm, Cexp[i][j]), 'nnls-matrix==(W;alpha*L)/max(b)')
            if ex.sym:
                hyp.append(cap['a'][i, j] == Cexp[i][j])     # a := vm*A by definition, == Cexp by the lemma
        ex.lemma(ex.eq(y[i] * vm, dexp[i]), 'nnls-rhs==(b;0)/max(b)')
        if ex.sym:
            hyp.append(cap['ys'][i] == dexp[i])
    g, r, Lx = _objective_grad(W, b, L, alpha, x)
    for j in range(n):
        ex.prove(ex.le(0, x[j]), 'x>=0', using=hyp)
        ex.prove(ex.le(0, g[j]), 'KKT:gradient>=0', using=hyp)
        ex.prove(ex.eq(x[j] * g[j], 0), 'KKT:complementarity', using=hyp)
    obj = _dot(r, r) + alpha * alpha * _dot(Lx, Lx)
    if ex.sym:
        # rnorm returned by the wrapper is nnls' rnorm times max(b), i.e. the norm of the rescaled residual (rs)
        ex.prove(ex.eq(rnorm, cap['rs']), 'reported-norm==nnls-norm*max(b)')
        ex.prove(ex.eq(cap['rs'] * cap['rs'], obj), 'reported-norm^2==objective', using=hyp)
    else:
        ex.prove(ex.all([ex.le(0, rnorm), ex.eq(rnorm * rnorm, obj)]), 'reported-norm^2==objective')
    ex.sample({'m': m, 'n': n, 'tikhonov': tik})


@harness('C11', name='lstsq_wrapper',
         tiers={'quick': [{'m': m, 'n': n, 'tik': t} for (m, n) in ((1, 1), (2, 1), (1, 2), (2, 2)) for t in (False, True)],
                'thorough': [{'m': m, 'n': n, 'tik': t} for (m, n) in ((1, 1), (2, 1), (1, 2), (2, 2), (3, 2), (2, 3)) for t in (False, True)]},
         functions=['cherab.tools.inversions.lstsq.invert_regularised_lstsq'], universe=_reg_universe,
         cover=['ran'],
         bounds={'shape': 'm x n concrete per job', 'values': 'W, b, alpha, Tikhonov matrix symbolic'},
         stubs=['numpy.linalg.lstsq(C, d): contract = x with C^T C x = C^T d; residuals = [|Cx-d|^2]'],
         outside=['LAPACK internals; rank-deficient case returns an empty residual array (numpy documented behaviour)'])
def lstsq_wrapper(ex, uni, m, n, tik):
    mod = uni.load('cherab.tools.inversions.lstsq')
    W = _mat(ex, 'W', m, n)
    b = _vec(ex, 'b', m)
    alpha = ex.real('alpha', nonneg=True)
    Lm = _mat(ex, 'T', n, n) if tik else None
    sym = ex.sym

    def lstsq(C, d, rcond=None):
        nn = C.shape[1]
        if sym:
            x = np.array([ex.real('xs_%d' % j) for j in range(nn)], dtype=object)
            res = [_dot(C[i, :], x) - d[i] for i in range(C.shape[0])]
            for j in range(nn):
                ex.assume(_dot(C[:, j], res) == 0, 'lstsq contract: normal equations')
            return x, np.array([_dot(res, res)], dtype=object), nn, None
        return np.linalg.lstsq(np.array(C, dtype=float), np.array(d, dtype=float), rcond=None)
    uni.np.linalg.lstsq = lstsq
    x, residuals = mod.invert_regularised_lstsq(W, b, alpha=alpha, tikhonov_matrix=Lm)
    ex.cover('ran')
    L = Lm if tik else np.identity(n)
    g, r, Lx = _objective_grad(W, b, L, alpha, x)
    for j in range(n):
        ex.prove(ex.eq(g[j], 0), 'normal-equations-of-|Wx-b|^2+alpha^2|Lx|^2')
    obj = _dot(r, r) + alpha * alpha * _dot(Lx, Lx)
    if len(residuals) == 1:
        ex.prove(ex.eq(residuals[0], obj), 'reported-residual==objective')
    ex.sample({'m': m, 'n': n, 'tikhonov': tik})


@harness('C11', name='svd_wrapper',
         tiers={'quick': [{'m': m, 'n': n} for (m, n) in ((1, 1), (2, 1), (1, 2))],
                'thorough': [{'m': m, 'n': n} for (m, n) in ((1, 1), (2, 1), (1, 2), (3, 1), (1, 3))]},
         functions=['cherab.tools.inversions.svd.invert_svd'], universe=_reg_universe, cover=['ran'],
         bounds={'shape': 'm x n concrete per job', 'values': 'W, b symbolic'},
         stubs=['scipy.linalg.pinv(W): contract = P with the four Moore-Penrose conditions'],
         outside=['LAPACK SVD internals'])
def svd_wrapper(ex, uni, m, n):
    mod = uni.load('cherab.tools.inversions.svd')
    W = _mat(ex, 'W', m, n)
    b = _vec(ex, 'b', m)
    sym = ex.sym

    def pinv(A):
        if not sym:
            import scipy.linalg
            return scipy.linalg.pinv(np.array(A, dtype=float))
        P = _mat(ex, 'P', A.shape[1], A.shape[0])
        WP = A @ P
        PW = P @ A
        WPW = WP @ A
        PWP = PW @ P
        for i in range(A.shape[0]):
            for j in range(A.shape[1]):
                ex.assume(WPW[i, j] == A[i, j], 'pinv contract: W P W = W')
                ex.assume(PWP[j, i] == P[j, i], 'pinv contract: P W P = P')
        for i in range(A.shape[0]):
            for j in range(i):
                ex.assume(WP[i, j] == WP[j, i], 'pinv contract: W P symmetric')
        for i in range(A.shape[1]):
            for j in range(i):
                ex.assume(PW[i, j] == PW[j, i], 'pinv contract: P W symmetric')
        return P
    cap = {}
    _pinv = pinv

    def pinv(A):   # noqa: F811
        cap['P'] = _pinv(A)
        return cap['P']
    mod.linalg = type('linalg_stub', (), {'pinv': staticmethod(pinv)})()
    x = mod.invert_svd(W, b)
    if ex.sym:
        # hint (cut rule): W^T W P = W^T follows from the Moore-Penrose conditions; proved entry by entry first
        WP = W @ cap['P']
        for i in range(n):
            for j in range(m):
                ex.lemma(ex.eq(_dot(W[:, i], WP[:, j]), W[j, i]), 'W^T(WP)==W^T')
    ex.cover('ran')
    ex.prove(len(x) == n, 'solution-length')
    r = [_dot(W[i, :], x) - b[i] for i in range(m)]
    for j in range(n):
        ex.prove(ex.eq(_dot(W[:, j], r), 0), 'normal-equations-W^T(Wx-b)=0')
    ex.sample({'m': m, 'n': n})

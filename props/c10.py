"""C10 — ray-transfer integrators and emitters (emitters.pyx translated)."""
import math
import itertools
import numpy as np
import z3

from symx.harness import harness
from symx import core, rs_model
from symx.core import I, R, B
from symx.universe import Universe

EM = 'cherab.tools.raytransfer.emitters'


class _VI:
    def __init__(self, *a, **k):
        pass


class _IVE:
    def __init__(self, integrator=None):
        self.integrator = integrator


def _universe():
    return Universe(stubs={'VolumeIntegrator': _VI, 'InhomogeneousVolumeEmitter': _IVE})


class HPoint:
    """point whose primitive-space image is symbolic (havocked transform)"""
    def __init__(self, p):
        self.p = p

    def transform(self, m):
        return self.p


class HP(rs_model.Point3D):
    def __init__(self, x, y, z, vec):
        rs_model.Point3D.__init__(self, x, y, z)
        self._vec = vec

    def vector_to(self, other):
        return self._vec


class _HavocComp:
    """direction component: component * t is an unconstrained real per sample (every sample position is arbitrary:
    a sound over-approximation of all rays, and it keeps the path conditions linear)"""
    def __init__(self, ex, axis, log):
        self.ex, self.axis, self.log = ex, axis, log

    def __mul__(self, t):
        v = self.ex.real('offset_%s_%d' % (self.axis, len(self.log[self.axis])))
        self.log[self.axis].append(v)
        self.log.setdefault('t_' + self.axis, []).append(t)
        return v
    __rmul__ = __mul__


class HV:
    """start->end vector: the length is a free symbol, the direction is havocked"""
    def __init__(self, ex, length):
        self._l = length
        self.log = {'x': [], 'y': [], 'z': []}
        self._d = [_HavocComp(ex, a, self.log) for a in 'xyz']

    def get_length(self):
        return self._l

    def normalise(self):
        return rs_model.Vector3D(*self._d)


class VMap:
    """voxel map as an uninterpreted function cell -> source id in [-1, nsrc)"""
    def __init__(self, ex, nsrc, shape):
        self.ex, self.nsrc, self.shape = ex, nsrc, shape
        if ex.sym:
            self.f = z3.Function('voxel_map', z3.IntSort(), z3.IntSort(), z3.IntSort(), z3.IntSort())
        self.table = {}
        self.reads = []

    def term(self, a, b, c):
        ts = [core.lift_int(a), core.lift_int(b), core.lift_int(c)]
        app = self.f(*ts)
        self.ex._add(z3.And(app >= -1, app < self.nsrc))
        # let counterexample models carry the map's values at the cells that were read (used by the replay in doubles)
        self.ex.memo[('voxel_map', 3)] = self.f
        self.ex.uf_log.setdefault('voxel_map', []).append(ts)
        return app

    def __getitem__(self, idx):
        a, b, c = idx
        self.reads.append(idx)
        if self.ex.sym:
            return I(self.term(a, b, c))
        # replay: the counterexample's map where it was read, else a deterministic map over the concrete cell
        v = self.ex.uf_lookup('voxel_map', a, b, c)
        if v is not None:
            return int(v)
        return ((int(a) * 7 + int(b) * 3 + int(c)) % (self.nsrc + 1)) - 1


def _mk_material(uni, ex, kind, shape, steps, nsrc, rmin=0):
    mod = uni.load(EM)
    K = mod.CartesianRayTransferEmitter if kind == 'cartesian' else mod.CylindricalRayTransferEmitter
    m = K.__new__(K)
    m._grid_shape, m._grid_steps = shape, steps
    vm = VMap(ex, nsrc, shape)
    m.voxel_map_mv = vm
    if kind == 'cartesian':
        m._dx, m._dy, m._dz = steps
    else:
        m._dr, m._dphi, m._dz = steps
        m._period = shape[1] * steps[1]
        m._rmin = rmin
    return mod, m, vm


def _floor_cell(ex, q):
    """floor of a non-negative quotient as an int term / int"""
    if ex.sym:
        return I(z3.ToInt(core.lift_real(q)))
    return int(math.floor(q))


@harness('C10', name='accumulation', universe=_universe,
         tiers={'quick': [{'kind': k, 'nmax': n} for k in ('cartesian', 'cylindrical') for n in (2,)],
                'thorough': [{'kind': k, 'nmax': n} for k in ('cartesian', 'cylindrical') for n in (2, 3)]},      # nmax = 4: > 13000 paths per kind, does not finish in 15 min
         max_paths=400000,
         functions=[EM + '.CartesianRayTransferIntegrator.integrate', EM + '.CylindricalRayTransferIntegrator.integrate'],
         cover=['integrated', 'short-ray-skipped'],
         bounds={'samples': 'number of integration samples n = max(min_samples, int(length/step)) <= nmax (forked by the solver)',
                 'ray': 'start point, unit direction and length are free symbols (every ray, over-approximated); all samples inside the grid',
                 'map': 'voxel map: uninterpreted function from cells to source ids in [-1, 2)'},
         stubs=['raysect Point3D/Vector3D (transform, vector_to, get_length, normalise): havocked', 'raysect Spectrum: model',
                'atan2: harness-supplied angle per sample point (cylindrical)'],
         outside=['raysect ray/primitive intersection that supplies start and end points', 'floating-point rounding of the index computation',
                  'the two-step chord-length error bound (geometric argument, not decided here)'])
def accumulation(ex, uni, kind, nmax):
    nsrc = 2
    shape = (2, 2, 2)
    # concrete cell sizes here (the index arithmetic with symbolic cell sizes is the subject of cell_index)
    steps = (0.5, 1.0, 2.0) if kind == 'cartesian' else (0.5, 60.0, 2.0)      # angular cells of 60 degrees: period 120 (does not divide 180, so a wrong wrap offset shows)
    rmin = 0.25 if kind == 'cylindrical' else 0
    mod, mat, vm = _mk_material(uni, ex, kind, shape, steps, nsrc, rmin)
    Integ = mod.CartesianRayTransferIntegrator if kind == 'cartesian' else mod.CylindricalRayTransferIntegrator
    step = ex.real('step', pos=True)
    msamp = int(ex.int('min_samples', 2, nmax))
    integ = Integ(step, msamp)
    L = ex.real('length', pos=True)
    s = [ex.real('start_' + c) for c in 'xyz']
    ex.assume(L < step * (nmax + 1), 'at most nmax samples from the step rule')
    hv = HV(ex, L)
    start = HP(s[0], s[1], s[2], hv)
    sp = uni.rs.Spectrum(1.0, 2.0, nsrc)
    pre = []
    for i in range(nsrc):
        v = ex.real('pre_%d' % i)
        sp.samples[i] = v
        pre.append(v)
    g = mod.__dict__
    angles = []
    if kind == 'cylindrical':
        def atan2(y, x):
            a = ex.real('phi_%d' % len(angles), lo=-180, hi=180)    # degrees; the code multiplies by 180/pi
            angles.append(a)
            # the code computes (180. / pi) * atan2(...): hand back a / (180. / pi) so that the product is exactly `a`
            return a / (180.0 / math.pi) if not ex.sym else a / core.CR(180.0 / math.pi)
        g['atan2'] = atan2
        radii = []

        def sqrt(v):    # r = sqrt(x^2 + y^2) havocked as well: any non-negative radius per sample
            r_ = ex.real('radius_%d' % len(radii), nonneg=True)
            radii.append(r_)
            return r_
        g['sqrt'] = sqrt
    out = integ.integrate(sp, None, None, None, mat, HPoint(start), HPoint(start), 'w2p', 'p2w')
    short = L < 0.1 * step
    if short:
        ex.cover('short-ray-skipped')
        ex.prove(ex.all([ex.eq(sp.samples[i], pre[i]) for i in range(nsrc)]), 'ray-shorter-than-a-tenth-of-a-step-adds-nothing')
        return
    ex.cover('integrated')
    # documented rule for the number of samples and their positions
    ratio = L / step
    n_expected = _floor_cell(ex, ratio)
    n = len(vm.reads) if False else None
    # recover n from the decisions of the run: number of sample points = number of distinct t values used
    # (the harness recomputes the sample positions independently below and checks them against the cells that were read)
    nn = int(core.trunc_to_int(ratio)) if True else None
    nn = max(msamp, nn)
    dt = L / nn
    added = [0.0] * nsrc
    active = 0
    for it in range(nn):
        ok_n = all(len(hv.log[a]) == nn for a in 'xyz')
        if not ok_n:
            break
        pos = [s[k] + hv.log[a][it] for k, a in enumerate('xyz')]
        if kind == 'cartesian':
            q = [pos[k] / steps[k] for k in range(3)]
        else:
            r = radii[it]
            a = angles[it]
            ph = a + 360.0
            # moving into [0, period): period = number of angular cells * angular step
            per = shape[1] * steps[1]
            k_ = _floor_cell(ex, ph / per)
            ph = ph - k_ * per
            q = [(r - rmin) / steps[0], ph / steps[1], pos[2] / steps[2]]
        for k in range(3):
            ex.assume(q[k] >= 0, 'sample inside the grid')
            ex.assume(q[k] < shape[k], 'sample inside the grid')
        cell = [_floor_cell(ex, q[k]) for k in range(3)]
        src = vm[cell[0], cell[1], cell[2]]
        for sidx in range(nsrc):
            added[sidx] = added[sidx] + ex.ite(src == sidx, dt, 0.0)
    ex.prove(all(len(hv.log[a]) == nn for a in 'xyz'), 'number-of-samples==max(min_samples,floor(length/step))')
    if all(len(hv.log[a]) == nn for a in 'xyz'):
        ex.prove(ex.all([ex.eq(hv.log['t_' + a][it], (it + 0.5) * dt) for a in 'xyz' for it in range(nn)]), 'samples-taken-at-mid-points-(it+1/2)*length/n')
    for sidx in range(nsrc):
        ex.prove(ex.eq(sp.samples[sidx] - pre[sidx], added[sidx]), 'entry(source)==dt*#{samples-whose-cell-maps-to-the-source}')
    tot = sum(added[1:], added[0])
    ex.prove(ex.all([ex.le(0, tot), ex.le(tot, L)]), 'sum-of-entries-between-0-and-chord-length')
    ex.sample({'kind': kind, 'samples': nn, 'min_samples': msamp})


@harness('C10', name='cell_index', universe=_universe,
         tiers={'quick': [{'kind': k} for k in ('cartesian', 'cylindrical')], 'thorough': [{'kind': k} for k in ('cartesian', 'cylindrical')]},
         functions=[EM + '.CartesianRayTransferEmitter.emission_function', EM + '.CylindricalRayTransferEmitter.emission_function'],
         cover=['looked-up'],
         bounds={'point': 'symbolic point inside the grid; cell sizes, inner radius symbolic; 2 x 2 x 2 cells, angular cell 60 degrees (period 120)'},
         stubs=['atan2: harness-supplied symbolic angle; the same point is also looked up one period further'],
         outside=['floating-point rounding at cell borders'])
def cell_index(ex, uni, kind):
    shape = (2, 2, 2)
    steps = (ex.real('d0', pos=True), ex.real('d1', pos=True), ex.real('d2', pos=True))
    if kind == 'cylindrical':
        steps = (steps[0], 60.0, steps[2])      # period 120 degrees: does not divide 180, so a wrong wrap offset shows
    rmin = ex.real('rmin', nonneg=True) if kind == 'cylindrical' else 0
    mod, mat, vm = _mk_material(uni, ex, kind, shape, steps, 3, rmin)
    x, y, z = ex.real('x'), ex.real('y'), ex.real('z')
    sp = uni.rs.Spectrum(1.0, 2.0, 3)
    g = mod.__dict__
    ang = ex.real('phi_deg', lo=-180, hi=180)
    if kind == 'cylindrical':
        shift = bool(ex.bool('one_period_further'))
        a2 = ang
        if shift:
            a2 = ang + 2 * steps[1]
            ex.assume(a2 <= 180)
        cur = {'a': ang}
        g['atan2'] = lambda yy, xx: (cur['a'] / core.CR(180.0 / math.pi)) if ex.sym else cur['a'] / (180.0 / math.pi)
        r = core.MATH.sqrt(x * x + y * y)
        q0, q2 = (r - rmin) / steps[0], z / steps[2]
    else:
        q0, q1, q2 = x / steps[0], y / steps[1], z / steps[2]
        ex.assume(q1 >= 0)
        ex.assume(q1 < 2)
    ex.assume(q0 >= 0)
    ex.assume(q0 < 2)
    ex.assume(q2 >= 0)
    ex.assume(q2 < 2)
    p = rs_model.Point3D(x, y, z)
    mat.emission_function(p, None, sp, None, None, None, None, None)
    ex.cover('looked-up')
    ia, ib, ic = vm.reads[0]
    ok = [ex.le(ia * 1, q0), ex.lt(q0, ia + 1), ex.le(ic * 1, q2), ex.lt(q2, ic + 1)]
    if kind == 'cartesian':
        ok += [ex.le(ib * 1, q1), ex.lt(q1, ib + 1)]
    else:
        per = 2 * steps[1]
        ph = ang + 360.0
        ph = ph - _floor_cell(ex, ph / per) * per          # the documented wrap of atan2's (-180, 180] into [0, period)
        ok += [ib >= 0, ib < 2, ex.le(ib * steps[1], ph), ex.lt(ph, (ib + 1) * steps[1])]
    ex.prove(ex.all(ok), 'cell-index-satisfies-i*d<=coordinate<(i+1)*d')
    src = vm[ia, ib, ic] if ex.sym else vm[ia, ib, ic]
    for sidx in range(3):
        want = ex.ite(src == sidx, 1.0, 0.0)
        ex.prove(ex.eq(sp.samples[sidx], want), 'emission-adds-1-to-the-mapped-source-and-nothing-for--1')
    if kind == 'cylindrical':
        # the same point one angular period further falls into the same cell
        vm.reads.clear()
        cur['a'] = a2
        mat.emission_function(p, None, uni.rs.Spectrum(1.0, 2.0, 3), None, None, None, None, None)
        ja, jb, jc = vm.reads[0]
        ex.prove(ex.all([ja == ia, jb == ib, jc == ic]), 'cylindrical-grid-repeats-with-the-angular-period')
    ex.sample({'kind': kind})


@harness('C10', name='mask_and_map',
         tiers={'quick': [{}], 'thorough': [{}]},
         functions=[EM + '.RayTransferEmitter._map_from_mask', EM + '.RayTransferEmitter.voxel_map (setter)', EM + '.RayTransferEmitter.mask (setter)'],
         cover=['masks-enumerated'],
         bounds={'masks': 'ALL 2^4 masks and all 3^4 voxel maps with ids in {-1,0,1} of a 2x1x2 grid (concrete enumeration: numpy boolean indexing '
                          'cannot carry symbolic values; labelled as enumeration)'},
         stubs=[], outside=['larger grids'])
def mask_and_map(ex, uni):
    import cherab.tools.raytransfer as real       # compiled module: these setters are pure numpy bookkeeping
    shape = (2, 1, 2)
    n_ok = 0
    for bits in itertools.product((False, True), repeat=4):
        mask = np.array(bits, dtype=bool).reshape(shape)
        em = real.CartesianRayTransferEmitter(shape, (1.0, 1.0, 1.0), mask=mask)
        vmap = em.voxel_map
        ok = em.bins == mask.sum() and bool(np.all((vmap > -1) == mask)) and sorted(vmap[mask].tolist()) == list(range(int(mask.sum()))) \
            and bool(np.all(em.mask == mask))
        ex.prove(bool(ok), 'mask->one-source-per-active-cell,-1-elsewhere,bins==active-cells')
        n_ok += 1
    for ids in itertools.product((-1, 0, 1), repeat=4):
        vmap = np.array(ids, dtype=np.int32).reshape(shape)
        em = real.CartesianRayTransferEmitter(shape, (1.0, 1.0, 1.0), voxel_map=vmap)
        ok = em.bins == max(ids) + 1 and bool(np.all(em.voxel_map == vmap)) and bool(np.all(em.mask == (vmap > -1)))
        ex.prove(bool(ok), 'voxel_map-setter:bins==max+1,mask==(map>-1)')
    ex.cover('masks-enumerated')
    ex.sample({'masks': 16, 'maps': 81})


# ------------------------------------------------------------------------------------------- straight rays: chord per cell
class _LinComp:
    """direction component of a straight ray start -> end: component * t_it = V * (it + 1/2) / n (linear in the ray's end
    points; that t_it is the documented mid-point is an obligation of its own)"""
    def __init__(self, V, nn, log):
        self.V, self.nn, self.log = V, nn, log

    def __mul__(self, t):
        it = len(self.log)
        self.log.append(t)
        return self.V * ((2 * it + 1) / core.CR(2 * self.nn)) if core.CUR.sym else self.V * ((it + 0.5) / self.nn)
    __rmul__ = __mul__


class _LinV:
    def __init__(self, L, V, nn):
        self._l, self.V, self.nn = L, V, nn
        self.logs = [[], [], []]

    def get_length(self):
        return self._l

    def normalise(self):
        return rs_model.Vector3D(*[_LinComp(self.V[k], self.nn, self.logs[k]) for k in range(3)])


class _IdMap:
    """one source per cell (the identity voxel map of a grid without mask)"""
    def __init__(self, shape):
        self.shape = shape

    def __getitem__(self, idx):
        a, b, c = (int(i) for i in idx)
        return (a * self.shape[1] + b) * self.shape[2] + c


@harness('C10', name='chord_per_cell', universe=_universe,
         tiers={'quick': [{'n': 2, 'shape': (2, 1, 1)}, {'n': 3, 'shape': (2, 2, 1)}, {'n': 3, 'shape': (3, 1, 1)}],
                'thorough': [{'n': n, 'shape': sh} for sh, ns in (((2, 1, 1), (2, 3, 4, 5, 6)), ((3, 1, 1), (2, 3, 4, 5, 6)), ((2, 2, 1), (2, 3, 4)),
                                                                  ((1, 2, 2), (2, 3)), ((2, 2, 2), (2, 3)), ((3, 2, 1), (2, 3))) for n in ns]},
         max_paths=200000, timeout_ms=60000,
         functions=[EM + '.CartesianRayTransferIntegrator.integrate'], cover=['integrated'],
         bounds={'samples': 'number of samples n concrete per job (min_samples = n, int(length / step) <= n)',
                 'grid': 'cells per axis concrete per job, cell sizes 0.5 x 1 x 2, one source per cell',
                 'ray': 'straight segment between two symbolic points strictly inside the grid box (any direction, any length)'},
         stubs=['raysect Point3D / Vector3D: the start -> end vector is V, its normalised components times t_it are V (it + 1/2) / n',
                'exact chord: length fraction of the parameter interval on which the point lies in the cell (intersection of the slabs)'],
         outside=['cylindrical grids (curved cells: the exact chord needs square roots)', 'floating-point rounding', 'more samples than the bound'])
def chord_per_cell(ex, uni, n, shape):
    steps = (0.5, 1.0, 2.0)
    mod = uni.load(EM)
    K = mod.CartesianRayTransferEmitter
    mat = K.__new__(K)
    mat._grid_shape, mat._grid_steps = shape, steps
    mat._dx, mat._dy, mat._dz = steps
    mat.voxel_map_mv = _IdMap(shape)
    ncell = shape[0] * shape[1] * shape[2]
    step = ex.real('step', pos=True)
    L = ex.real('length', pos=True)
    ex.assume(L >= 0.1 * step, 'rays shorter than a tenth of a step are skipped (checked in accumulation)')
    ex.assume(L < step * (n + 1), 'int(length / step) <= n, so that n = min_samples samples are taken')
    integ = mod.CartesianRayTransferIntegrator(step, n)
    S = [ex.real('s' + c) for c in 'xyz']
    E = [ex.real('e' + c) for c in 'xyz']
    for k in range(3):
        for p in (S, E):
            ex.assume(p[k] > 0)
            ex.assume(p[k] < shape[k] * steps[k])
    V = [E[k] - S[k] for k in range(3)]
    for k in range(3):
        if shape[k] == 1:
            continue
    lv = _LinV(L, V, n)
    start = HP(S[0], S[1], S[2], lv)
    sp = uni.rs.Spectrum(1.0, 2.0, ncell)
    for i in range(ncell):
        sp.samples[i] = 0.0
    integ.integrate(sp, None, None, None, mat, HPoint(start), HPoint(start), 'w2p', 'p2w')
    ex.cover('integrated')
    dt = L / n
    ex.prove(all(len(lg) == n for lg in lv.logs), 'n==max(min_samples,int(length/step))-samples')
    ex.prove(ex.all([ex.eq(lg[it], (it + 0.5) * dt) for lg in lv.logs for it in range(len(lg))]), 'samples-taken-at-mid-points-(it+1/2)*length/n')
    # exact chord fraction per cell: the parameter interval (as a fraction of the segment) inside each slab, intersected
    lam = {}
    for ia in range(shape[0]):
        for ib in range(shape[1]):
            for ic in range(shape[2]):
                lo_, hi_ = 0, 1
                empty = False
                for k, i in enumerate((ia, ib, ic)):
                    if shape[k] == 1:
                        continue          # both end points are inside the only slab of this axis
                    a, b = i * steps[k], (i + 1) * steps[k]
                    v = V[k]
                    if v > 0:
                        l_, h_ = (a - S[k]) / v, (b - S[k]) / v
                    elif v < 0:
                        l_, h_ = (b - S[k]) / v, (a - S[k]) / v
                    else:
                        if bool(ex.all([ex.le(a, S[k]), ex.lt(S[k], b)])):
                            continue
                        empty = True
                        break
                    lo_ = ex.ite(l_ > lo_, l_, lo_)
                    hi_ = ex.ite(h_ < hi_, h_, hi_)
                if empty:
                    lam[(ia, ib, ic)] = (0, True)
                else:
                    d = hi_ - lo_
                    lam[(ia, ib, ic)] = (ex.ite(d > 0, d, 0), d < 0)
    tot = 0
    for (ia, ib, ic), (lm, missed) in lam.items():
        src = (ia * shape[1] + ib) * shape[2] + ic
        entry = sp.samples[src]
        chord = lm * L
        tot = tot + entry
        ex.prove(ex.all([ex.le(entry - chord, 2 * dt), ex.le(chord - entry, 2 * dt)]), 'cell-entry-within-two-steps-of-the-exact-chord-in-the-cell')
        # (a cell that the segment only touches in one point may hold a sample lying exactly on the shared face)
        ex.prove(ex.implies(missed, ex.eq(entry, 0)), 'cell-missed-by-the-ray-receives-nothing')
    ex.prove(ex.eq(tot, L), 'entries-sum-to-the-chord-length-inside-the-grid')
    ex.sample({'n': n, 'shape': list(shape)})

"""C13 — function wrappers and samplers are exact pointwise compositions (mappers, clamp, slice, periodic, cylindrical, samplers)."""
import math
import itertools
import random
import numpy as np

from symx.harness import harness
from symx import core, rs_model
from symx.core import MATH

M = 'cherab.core.math.'


class Rec1(rs_model.Function1D):
    def __init__(self, ex, name):
        self.ex, self.name, self.calls = ex, name, []

    def evaluate(self, x):
        self.calls.append((x,))
        return self.ex.uf(self.name, x)


class Rec2(rs_model.Function2D):
    def __init__(self, ex, name):
        self.ex, self.name, self.calls = ex, name, []

    def evaluate(self, x, y):
        self.calls.append((x, y))
        return self.ex.uf(self.name, x, y)


class Rec3(rs_model.Function3D):
    def __init__(self, ex, name):
        self.ex, self.name, self.calls = ex, name, []

    def evaluate(self, x, y, z):
        self.calls.append((x, y, z))
        return self.ex.uf(self.name, x, y, z)


class RecV2(rs_model.VectorFunction2D):
    def __init__(self, ex, name):
        self.ex, self.name, self.calls = ex, name, []

    def evaluate(self, x, y):
        self.calls.append((x, y))
        return rs_model.Vector3D(*[self.ex.uf(self.name + c, x, y) for c in 'xyz'])


class RecV3(rs_model.VectorFunction3D):
    def __init__(self, ex, name):
        self.ex, self.name, self.calls = ex, name, []

    def evaluate(self, x, y, z):
        self.calls.append((x, y, z))
        return rs_model.Vector3D(*[self.ex.uf(self.name + c, x, y, z) for c in 'xyz'])


def _args_eq(ex, got, want):
    return ex.all([ex.eq(g, w) for g, w in zip(got, want)])


def _validate_wrappers(uni, **kw):
    """translated wrapper classes vs the compiled ones on concrete inputs"""
    import cherab.core.math as real
    mp = uni.load(M + 'mappers')
    cl = uni.load(M + 'clamp')
    sl = uni.load(M + 'slice')
    pe = uni.load(M + 'transform.periodic')
    cy = uni.load(M + 'transform.cylindrical')
    f1 = lambda x: 3 * x + 1
    f2 = lambda x, y: 2 * x - 5 * y + x * y
    f3 = lambda x, y, z: x + 10 * y + 100 * z + x * y * z
    rnd = random.Random(7)
    n = 0
    for _ in range(12):
        x, y, z = (rnd.uniform(-3, 3) for _ in range(3))
        pairs = [
            (mp.IsoMapper2D(f2, f1)(x, y), real.IsoMapper2D(f2, f1)(x, y)),
            (mp.IsoMapper3D(f3, f1)(x, y, z), real.IsoMapper3D(f3, f1)(x, y, z)),
            (mp.Swizzle2D(f2)(x, y), real.Swizzle2D(f2)(x, y)),
            (mp.Swizzle3D(f3, (2, 0, 1))(x, y, z), real.Swizzle3D(f3, (2, 0, 1))(x, y, z)),
            (mp.AxisymmetricMapper(f2)(x, y, z), real.AxisymmetricMapper(f2)(x, y, z)),
            (cl.ClampOutput2D(f2, -1.0, 2.0)(x, y), real.ClampOutput2D(f2, -1.0, 2.0)(x, y)),
            (cl.ClampInput3D(f3, -1, 1, -2, 0.5, 0, 2)(x, y, z), real.ClampInput3D(f3, -1, 1, -2, 0.5, 0, 2)(x, y, z)),
            (sl.Slice3D(f3, 1, 0.7)(x, y), real.Slice3D(f3, 1, 0.7)(x, y)),
            (sl.Slice2D(f2, 'x', 0.7)(x), real.Slice2D(f2, 'x', 0.7)(x)),
            (pe.PeriodicTransform1D(f1, 1.3)(x * 5), real.transform.PeriodicTransform1D(f1, 1.3)(x * 5)),
            (pe.PeriodicTransform3D(f3, 1.3, 0, 0.4)(x * 5, y, z), real.transform.PeriodicTransform3D(f3, 1.3, 0, 0.4)(x * 5, y, z)),
            (cy.CylindricalTransform(f3)(x, y, z), real.transform.CylindricalTransform(f3)(x, y, z)),
        ]
        for a, b in pairs:
            if abs(float(a) - float(b)) > 1e-9 * max(abs(float(a)), abs(float(b)), 1e-300):
                raise core.HarnessError('translator validation failed (wrappers): %r vs %r' % (a, b))
            n += 1
    return n


WRAPPERS = ['iso', 'swizzle2d', 'swizzle3d', 'slice', 'axisym', 'vector_axisym', 'clamp_out', 'clamp_in', 'cylindrical',
            'vector_cylindrical', 'periodic', 'vector_periodic']


@harness('C13', name='wrappers',
         tiers={'quick': [{'which': w} for w in WRAPPERS], 'thorough': [{'which': w} for w in WRAPPERS]},
         functions=[M + 'mappers.*.evaluate', M + 'clamp.*.evaluate', M + 'slice.*.evaluate',
                    M + 'transform.cylindrical.*.evaluate', M + 'transform.periodic.*.evaluate',
                    M + 'transform.periodic.remainder (periodic.pxd)'],
         validate=_validate_wrappers, cover=['evaluated'],
         bounds={'arguments': 'all real arguments symbolic; Swizzle3D: all 27 shape tuples; Slice: every axis selector',
                 'mode': 'exact real arithmetic (the periodic kernel is re-checked in IEEE double mode by periodic_double)'},
         stubs=['wrapped functions: recording uninterpreted functions', 'raysect Function*/Vector3D/rotate_z/clamp: models',
                'sqrt: root variable; atan2: r cos(phi) = x, r sin(phi) = y; fmod: exact real-mode definition'],
         outside=['floating-point rounding in this harness'])
def wrappers(ex, uni, which):
    x, y, z = ex.real('x'), ex.real('y'), ex.real('z')
    mp = uni.load(M + 'mappers')
    done = lambda: ex.cover('evaluated')
    if which == 'iso':
        g = Rec1(ex, 'g')
        f2, f3 = Rec2(ex, 'f2'), Rec3(ex, 'f3')
        ex.prove(ex.eq(mp.IsoMapper2D(f2, g)(x, y), ex.uf('g', ex.uf('f2', x, y))), 'IsoMapper2D==g(f(x,y))')
        ex.prove(ex.eq(mp.IsoMapper3D(f3, g)(x, y, z), ex.uf('g', ex.uf('f3', x, y, z))), 'IsoMapper3D==g(f(x,y,z))')
        done()
    elif which == 'swizzle2d':
        f2 = Rec2(ex, 'f2')
        ex.prove(ex.eq(mp.Swizzle2D(f2)(x, y), ex.uf('f2', y, x)), 'Swizzle2D==f(y,x)')
        done()
    elif which == 'swizzle3d':
        arg = (x, y, z)
        for shape in itertools.product(range(3), repeat=3):
            f3 = Rec3(ex, 'f3')
            r = mp.Swizzle3D(f3, shape)(x, y, z)
            ex.prove(ex.eq(r, ex.uf('f3', arg[shape[0]], arg[shape[1]], arg[shape[2]])), 'Swizzle3D==f(args[shape])')
        for bad in ((0, 1), (0, 1, 3), [0, 1, 2]):
            try:
                mp.Swizzle3D(Rec3(ex, 'f3'), bad)
                ok = False
            except (ValueError, TypeError):
                ok = True
            ex.prove(ok, 'Swizzle3D-rejects-bad-shape')
        done()
    elif which == 'slice':
        sl = uni.load(M + 'slice')
        v = ex.real('value')
        for axis, want in ((0, (v, x)), (1, (x, v)), ('x', (v, x)), ('Y', (x, v))):
            f2 = Rec2(ex, 'f2')
            ex.prove(ex.eq(sl.Slice2D(f2, axis, v)(x), ex.uf('f2', *want)), 'Slice2D-fixes-the-chosen-axis')
        for axis, want in ((0, (v, x, y)), (1, (x, v, y)), (2, (x, y, v)), ('x', (v, x, y)), ('y', (x, v, y)), ('Z', (x, y, v))):
            f3 = Rec3(ex, 'f3')
            ex.prove(ex.eq(sl.Slice3D(f3, axis, v)(x, y), ex.uf('f3', *want)), 'Slice3D-fixes-the-chosen-axis')
        for bad in (2, -1, 'q'):
            try:
                sl.Slice2D(Rec2(ex, 'f2'), bad, v)
                ok = False
            except ValueError:
                ok = True
            ex.prove(ok, 'Slice2D-rejects-bad-axis')
        done()
    elif which == 'axisym':
        f2 = Rec2(ex, 'f2')
        r = mp.AxisymmetricMapper(f2)(x, y, z)
        rad = MATH.sqrt(x * x + y * y)
        ex.prove(ex.eq(r, ex.uf('f2', rad, z)), 'AxisymmetricMapper==f(sqrt(x^2+y^2),z)')
        ex.prove(_args_eq(ex, f2.calls[0], (rad, z)), 'AxisymmetricMapper-argument')
        done()
    elif which in ('vector_axisym', 'vector_cylindrical'):
        ex.assume(x * x + y * y > 0, 'off the symmetry axis (the toroidal angle is undefined on it)')
        if which == 'vector_axisym':
            fv = RecV2(ex, 'v')
            out = mp.VectorAxisymmetricMapper(fv)(x, y, z)
            rad = MATH.sqrt(x * x + y * y)
            want_args = (rad, z)
        else:
            cy = uni.load(M + 'transform.cylindrical')
            fv = RecV3(ex, 'v')
            out = cy.VectorCylindricalTransform(fv)(x, y, z)
            rad = MATH.sqrt(x * x + y * y)
            want_args = (rad, MATH.atan2(y, x), z)
        ex.prove(_args_eq(ex, fv.calls[0], want_args), which + '-argument==(r,[phi],z)')
        a = fv.calls[0]
        vx, vy, vz = (ex.uf('v' + c, *a) for c in 'xyz')
        # rotation by the toroidal angle: cos(phi) = x/r, sin(phi) = y/r
        ex.prove(ex.all([ex.eq(out.x * rad, vx * x - vy * y), ex.eq(out.y * rad, vx * y + vy * x), ex.eq(out.z, vz)]),
                 which + '-vector-rotated-by-toroidal-angle')
        done()
    elif which == 'clamp_out':
        cl = uni.load(M + 'clamp')
        lo, hi = ex.real('lo'), ex.real('hi')
        ex.assume(lo < hi)
        for cls, f, args in ((cl.ClampOutput1D, Rec1(ex, 'f1'), (x,)), (cl.ClampOutput2D, Rec2(ex, 'f2'), (x, y)),
                             (cl.ClampOutput3D, Rec3(ex, 'f3'), (x, y, z))):
            r = cls(f, lo, hi)(*args)
            v = ex.uf(f.name, *args)
            want = ex.ite(v < lo, lo, ex.ite(v > hi, hi, v))
            ex.prove(ex.eq(r, want), cls.__name__ + '==clamp(f(x))')
            r2 = cls(f)(*args)
            ex.prove(ex.eq(r2, v), cls.__name__ + '-default-bounds-are-identity')
        try:
            cl.ClampOutput1D(Rec1(ex, 'f1'), hi, lo)
            ok = False
        except ValueError:
            ok = True
        ex.prove(ok, 'ClampOutput-rejects-min>=max')
        done()
    elif which == 'clamp_in':
        cl = uni.load(M + 'clamp')
        b = [ex.real(n) for n in ('xlo', 'xhi', 'ylo', 'yhi', 'zlo', 'zhi')]
        ex.assume(b[0] < b[1])
        ex.assume(b[2] < b[3])
        ex.assume(b[4] < b[5])
        cx = ex.ite(x < b[0], b[0], ex.ite(x > b[1], b[1], x))
        cy_ = ex.ite(y < b[2], b[2], ex.ite(y > b[3], b[3], y))
        cz = ex.ite(z < b[4], b[4], ex.ite(z > b[5], b[5], z))
        f1, f2, f3 = Rec1(ex, 'f1'), Rec2(ex, 'f2'), Rec3(ex, 'f3')
        ex.prove(ex.eq(cl.ClampInput1D(f1, b[0], b[1])(x), ex.uf('f1', cx)), 'ClampInput1D==f(clamp(x))')
        ex.prove(ex.eq(cl.ClampInput2D(f2, *b[:4])(x, y), ex.uf('f2', cx, cy_)), 'ClampInput2D==f(clamp(x),clamp(y))')
        ex.prove(ex.eq(cl.ClampInput3D(f3, *b)(x, y, z), ex.uf('f3', cx, cy_, cz)), 'ClampInput3D==f(clamp(x),clamp(y),clamp(z))')
        done()
    elif which == 'cylindrical':
        cy = uni.load(M + 'transform.cylindrical')
        f3 = Rec3(ex, 'f3')
        r = cy.CylindricalTransform(f3)(x, y, z)
        rad, phi = MATH.sqrt(x * x + y * y), MATH.atan2(y, x)
        ex.prove(_args_eq(ex, f3.calls[0], (rad, phi, z)), 'CylindricalTransform-argument==(r,atan2(y,x),z)')
        ex.prove(ex.eq(r, ex.uf('f3', rad, phi, z)), 'CylindricalTransform==f(r,phi,z)')
        done()
    elif which in ('periodic', 'vector_periodic'):
        pe = uni.load(M + 'transform.periodic')
        p = [ex.real('px', nonneg=True), ex.real('py', nonneg=True), ex.real('pz', nonneg=True)]
        arg = (x, y, z)
        if which == 'periodic':
            cases = [(pe.PeriodicTransform1D, Rec1(ex, 'f1'), 1), (pe.PeriodicTransform2D, Rec2(ex, 'f2'), 2),
                     (pe.PeriodicTransform3D, Rec3(ex, 'f3'), 3)]
        else:
            cases = [(pe.VectorPeriodicTransform1D, _RecV1(ex, 'w'), 1), (pe.VectorPeriodicTransform2D, RecV2(ex, 'v'), 2),
                     (pe.VectorPeriodicTransform3D, RecV3(ex, 'u'), 3)]
        for cls, f, dim in cases:
            if dim == 1:
                ex.assume(p[0] > 0, '1D periodic transform requires a positive period (constructor check)')
            out = cls(f, *p[:dim])(*arg[:dim])
            inner = f.calls[-1]
            ex.prove(len(f.calls) == 1, cls.__name__ + '-evaluates-the-wrapped-function-once')
            if which == 'periodic':
                ex.prove(ex.eq(out, ex.uf(f.name, *inner)), cls.__name__ + '==f(inner-argument)')
            else:
                ex.prove(ex.all([ex.eq(getattr(out, c), ex.uf(f.name + c, *inner)) for c in 'xyz']),
                         cls.__name__ + '==F(inner-argument)')
            for k in range(dim):
                per = p[k]
                inside = ex.all([ex.le(0, inner[k]), ex.lt(inner[k], per)])
                # congruent to the original argument: inner = x - n * period for an integer n
                ok_pos = ex.implies(per > 0, ex.all([inside, _is_multiple(ex, arg[k] - inner[k], per)]))
                ok_zero = ex.implies(ex.eq(per, 0), ex.eq(inner[k], arg[k]))
                ex.prove(ex.all([ok_pos, ok_zero]), cls.__name__ + '-inner-argument-in-[0,period)-and-congruent')
        done()
    ex.sample({'wrapper': which})


class _RecV1(rs_model.VectorFunction1D):
    def __init__(self, ex, name):
        self.ex, self.name, self.calls = ex, name, []

    def evaluate(self, x):
        self.calls.append((x,))
        return rs_model.Vector3D(*[self.ex.uf(self.name + c, x) for c in 'xyz'])


def _is_multiple(ex, q, per):
    """q is an integer multiple of per (per > 0 on the guarded side)"""
    if ex.sym:
        import z3
        qt, pt = core.lift_real(q), core.lift_real(per)
        k = z3.ToInt(qt / pt)
        return core.B(z3.Implies(pt > 0, qt == z3.ToReal(k) * pt))
    if per <= 0:
        return True
    r = q / per
    return abs(r - round(r)) < 1e-9 * max(1.0, abs(r))


# ------------------------------------------------------------------------------------------- IEEE double mode
def _replay_remainder(model, label, **kw):
    """the counterexample on the compiled periodic transform (public API)"""
    from cherab.core.math.transform import PeriodicTransform1D
    x = float(core.model_float(model['x']))
    p = float(core.model_float(model['period']))
    seen = []
    PeriodicTransform1D(lambda t: seen.append(t) or 0.0, p)(x)
    inner = seen[0]
    return {'reproduced': not (0.0 <= inner < p), 'inner': repr(inner), 'x': repr(x), 'period': repr(p)}


@harness('C13', name='periodic_double', replay_real=_replay_remainder,
         tiers={'quick': [{}], 'thorough': [{}]}, timeout_ms=120000,
         functions=[M + 'transform.periodic.remainder (periodic.pxd)'], cover=['negative-remainder', 'non-negative-remainder'],
         bounds={'arguments': 'every finite IEEE-754 double x and every finite positive double period (z3 Float64, RNE)'},
         stubs=['fmod: C99 contract on doubles (|r|<|p|, sign of x or zero, r = x when |x|<|p|, |r|<=|x|)'],
         outside=['exactness of fmod beyond the stated contract'])
def periodic_double(ex, uni):
    pe = uni.load(M + 'transform.periodic')
    x = ex.double('x')
    p = ex.double('period')
    ex.assume(p > 0.0, 'positive period')
    r = pe.remainder(x, p)
    ex.cover('negative-remainder' if (x < 0.0) else 'non-negative-remainder')
    inside = ex.all([r >= 0.0, r < p]) if ex.sym else (0.0 <= r < p)
    if abs(x) < p:
        # here the fmod contract is exact (fmod(x, p) == x): counterexamples replay on the compiled code
        ex.prove(inside, 'inner-argument-in-[0,period)-for-every-double(|x|<period)')
    else:
        ex.prove(inside, 'inner-argument-in-[0,period)-for-every-double(|x|>=period)')
    ex.sample({'mode': 'Float64'})


# ------------------------------------------------------------------------------------------- samplers
def _validate_samplers(uni, **kw):
    import cherab.core.math as real
    sm = uni.load(M + 'samplers')
    f2 = lambda x, y: 2 * x - 5 * y + x * y
    a = sm.sample2d(f2, (0.5, 2.0, 3), (-1.0, 1.0, 2))
    b = real.sample2d(f2, (0.5, 2.0, 3), (-1.0, 1.0, 2))
    for u, v in zip(a, b):
        if not np.allclose(np.array(u, dtype=float), v, rtol=1e-12, atol=0):
            raise core.HarnessError('translator validation failed (sample2d)')
    return 1


COUNTS_Q = [(1, 1, 1), (2, 1, 3), (3, 2, 2)]
COUNTS_T = COUNTS_Q + [(4, 3, 2), (2, 4, 4), (1, 4, 1)]


@harness('C13', name='samplers', validate=_validate_samplers,
         tiers={'quick': [{'nx': a, 'ny': b, 'nz': c} for a, b, c in COUNTS_Q], 'thorough': [{'nx': a, 'ny': b, 'nz': c} for a, b, c in COUNTS_T]},
         functions=[M + 'samplers.' + f for f in ('sample1d', 'sample1d_points', 'sample2d', 'sample2d_points', 'sample2d_grid',
                                                   'sample3d', 'sample3d_points', 'sample3d_grid', 'samplevector2d',
                                                   'samplevector2d_points', 'samplevector2d_grid', 'samplevector3d',
                                                   'samplevector3d_points', 'samplevector3d_grid')],
         cover=['sampled'],
         bounds={'counts': 'samples per axis concrete per job (<=3 quick, <=4 thorough)', 'ranges': 'symbolic reals min<=max'},
         stubs=['numpy.linspace: model (min + i (max-min)/(n-1), end point exact)', 'sampled functions: recording uninterpreted functions'],
         outside=['numpy.linspace itself'])
def samplers(ex, uni, nx, ny, nz):
    sm = uni.load(M + 'samplers')
    lo = [ex.real(n) for n in ('x0', 'y0', 'z0')]
    hi = [ex.real(n) for n in ('x1', 'y1', 'z1')]
    for a, b in zip(lo, hi):
        ex.assume(a <= b)
    cnt = (nx, ny, nz)

    def node(k, i):
        if cnt[k] == 1:
            return lo[k]
        return lo[k] + i * (hi[k] - lo[k]) / (cnt[k] - 1)
    xs = [node(0, i) for i in range(nx)]
    ys = [node(1, j) for j in range(ny)]
    zs = [node(2, k) for k in range(nz)]
    dt = object if ex.sym else float
    # 1D
    f1 = Rec1(ex, 'f1')
    X, V = sm.sample1d(f1, (lo[0], hi[0], nx))
    ex.prove(len(X) == nx and len(V) == nx, 'sample1d-shape')
    for i in range(nx):
        ex.prove(ex.all([ex.eq(X[i], xs[i]), ex.eq(V[i], ex.uf('f1', xs[i]))]), 'sample1d[i]==f(x_i)')
    if nx > 1:
        ex.prove(ex.all([ex.eq(X[0], lo[0]), ex.eq(X[nx - 1], hi[0])]), 'sample1d-includes-both-end-points')
    V = sm.sample1d_points(f1, np.array(xs, dtype=dt))
    for i in range(nx):
        ex.prove(ex.eq(V[i], ex.uf('f1', xs[i])), 'sample1d_points[i]==f(x_i)')
    # 2D
    f2 = Rec2(ex, 'f2')
    X, Y, V = sm.sample2d(f2, (lo[0], hi[0], nx), (lo[1], hi[1], ny))
    ex.prove(tuple(V.shape) == (nx, ny), 'sample2d-shape')
    for i in range(nx):
        for j in range(ny):
            ex.prove(ex.all([ex.eq(X[i], xs[i]), ex.eq(Y[j], ys[j]), ex.eq(V[i, j], ex.uf('f2', xs[i], ys[j]))]), 'sample2d[i,j]==f(x_i,y_j)')
    V = sm.sample2d_grid(f2, np.array(xs, dtype=dt), np.array(ys, dtype=dt))
    ex.prove(tuple(V.shape) == (nx, ny), 'sample2d_grid-shape')
    for i in range(nx):
        for j in range(ny):
            ex.prove(ex.eq(V[i, j], ex.uf('f2', xs[i], ys[j])), 'sample2d_grid[i,j]==f(x_i,y_j)')
    pts = np.array([[xs[i], ys[j]] for i in range(nx) for j in range(ny)], dtype=dt)
    V = sm.sample2d_points(f2, pts)
    for k in range(len(pts)):
        ex.prove(ex.eq(V[k], ex.uf('f2', pts[k][0], pts[k][1])), 'sample2d_points[k]==f(p_k)')
    # 3D
    f3 = Rec3(ex, 'f3')
    X, Y, Z, V = sm.sample3d(f3, (lo[0], hi[0], nx), (lo[1], hi[1], ny), (lo[2], hi[2], nz))
    ex.prove(tuple(V.shape) == (nx, ny, nz), 'sample3d-shape')
    for i in range(nx):
        for j in range(ny):
            for k in range(nz):
                ex.prove(ex.all([ex.eq(Z[k], zs[k]), ex.eq(V[i, j, k], ex.uf('f3', xs[i], ys[j], zs[k]))]), 'sample3d[i,j,k]==f(x_i,y_j,z_k)')
    V = sm.sample3d_grid(f3, np.array(xs, dtype=dt), np.array(ys, dtype=dt), np.array(zs, dtype=dt))
    for i in range(nx):
        for j in range(ny):
            for k in range(nz):
                ex.prove(ex.eq(V[i, j, k], ex.uf('f3', xs[i], ys[j], zs[k])), 'sample3d_grid[i,j,k]==f(x_i,y_j,z_k)')
    pts = np.array([[xs[i], ys[j], zs[k]] for i in range(nx) for j in range(ny) for k in range(nz)], dtype=dt)
    V = sm.sample3d_points(f3, pts)
    for q in range(len(pts)):
        ex.prove(ex.eq(V[q], ex.uf('f3', pts[q][0], pts[q][1], pts[q][2])), 'sample3d_points[k]==f(p_k)')
    # vector samplers
    fv2, fv3 = RecV2(ex, 'v'), RecV3(ex, 'u')
    X, Y, V = sm.samplevector2d(fv2, (lo[0], hi[0], nx), (lo[1], hi[1], ny))
    ex.prove(tuple(V.shape) == (nx, ny, 3), 'samplevector2d-shape')
    for i in range(nx):
        for j in range(ny):
            ex.prove(ex.all([ex.eq(V[i, j, c], ex.uf('v' + 'xyz'[c], xs[i], ys[j])) for c in range(3)]), 'samplevector2d[i,j]==F(x_i,y_j)')
    V = sm.samplevector2d_grid(fv2, np.array(xs, dtype=dt), np.array(ys, dtype=dt))
    for i in range(nx):
        for j in range(ny):
            ex.prove(ex.all([ex.eq(V[i, j, c], ex.uf('v' + 'xyz'[c], xs[i], ys[j])) for c in range(3)]), 'samplevector2d_grid[i,j]==F(x_i,y_j)')
    X, Y, Z, V = sm.samplevector3d(fv3, (lo[0], hi[0], nx), (lo[1], hi[1], ny), (lo[2], hi[2], nz))
    ex.prove(tuple(V.shape) == (nx, ny, nz, 3), 'samplevector3d-shape')
    for i in range(nx):
        for j in range(ny):
            for k in range(nz):
                ex.prove(ex.all([ex.eq(V[i, j, k, c], ex.uf('u' + 'xyz'[c], xs[i], ys[j], zs[k])) for c in range(3)]), 'samplevector3d[i,j,k]==F(x_i,y_j,z_k)')
    V = sm.samplevector3d_grid(fv3, np.array(xs, dtype=dt), np.array(ys, dtype=dt), np.array(zs, dtype=dt))
    for i in range(nx):
        for j in range(ny):
            for k in range(nz):
                ex.prove(ex.all([ex.eq(V[i, j, k, c], ex.uf('u' + 'xyz'[c], xs[i], ys[j], zs[k])) for c in range(3)]), 'samplevector3d_grid[i,j,k]==F(x_i,y_j,z_k)')
    pts = np.array([[xs[i], ys[j]] for i in range(nx) for j in range(ny)], dtype=dt)
    V = sm.samplevector2d_points(fv2, pts)
    ex.prove(tuple(V.shape) == (len(pts), 3), 'samplevector2d_points-shape')
    for q in range(len(pts)):
        ex.prove(ex.all([ex.eq(V[q, c], ex.uf('v' + 'xyz'[c], pts[q][0], pts[q][1])) for c in range(3)]), 'samplevector2d_points[k]==F(p_k)')
    pts = np.array([[xs[i], ys[j], zs[k]] for i in range(nx) for j in range(ny) for k in range(nz)], dtype=dt)
    V = sm.samplevector3d_points(fv3, pts)
    ex.prove(tuple(V.shape) == (len(pts), 3), 'samplevector3d_points-shape')
    for q in range(len(pts)):
        ex.prove(ex.all([ex.eq(V[q, c], ex.uf('u' + 'xyz'[c], pts[q][0], pts[q][1], pts[q][2])) for c in range(3)]), 'samplevector3d_points[k]==F(p_k)')
    # every sampled function is evaluated exactly at the grid nodes, in index order (no extra / missing evaluations)
    f2b = Rec2(ex, 'f2')
    sm.sample2d(f2b, (lo[0], hi[0], nx), (lo[1], hi[1], ny))
    ex.prove(len(f2b.calls) == nx * ny, 'sample2d-evaluates-once-per-node')
    # argument validation
    for bad in ((hi[0] + 1, hi[0], nx), (lo[0], hi[0], 0), (lo[0], hi[0])):
        try:
            sm.sample1d(f1, bad)
            ok = False
        except ValueError:
            ok = True
        ex.prove(ok, 'sample1d-rejects-bad-range')
    ex.cover('sampled')
    ex.sample({'counts': [nx, ny, nz]})


# ------------------------------------------------------------------------------------------- polygon mask
class _Mesh2D(rs_model.Function2D):
    """raysect Discrete2DMesh by contract: the value of the first triangle containing the point (edges included); outside every
    triangle: ValueError when limit is set, default_value otherwise"""
    made = []

    def __init__(self, vertex_coords, triangles, triangle_data, limit=True, default_value=0.0):
        self.v, self.t, self.d, self.limit, self.default = vertex_coords, triangles, triangle_data, limit, default_value
        _Mesh2D.made.append(self)

    def evaluate(self, x, y):
        for k in range(len(self.t)):
            a, b, c = (self.v[int(i)] for i in self.t[k])
            if _in_triangle(x, y, a, b, c):
                return self.d[k]
        if self.limit:
            raise ValueError('Requested value outside mesh bounds.')
        return self.default


def _cross(o, a, px, py):
    return (a[0] - o[0]) * (py - o[1]) - (a[1] - o[1]) * (px - o[0])


def _in_triangle(x, y, a, b, c):
    d1, d2, d3 = _cross(a, b, x, y), _cross(b, c, x, y), _cross(c, a, x, y)
    return bool(d1 >= 0) and bool(d2 >= 0) and bool(d3 >= 0) or (bool(d1 <= 0) and bool(d2 <= 0) and bool(d3 <= 0))


def _fan(v):
    n = len(v)
    return np.array([[0, i, i + 1] for i in range(1, n - 1)], dtype=np.int32)


def _triangulate(v):
    """raysect triangulate2d by contract for the polygons of this harness: any valid triangulation of a simple polygon covers
    the same point set.  Convex polygons: fan.  Simple quadrilaterals: split along the diagonal that lies inside, i.e. the one
    starting at the reflex vertex (the quadrilateral's orientation is decided by the sign of its area)."""
    n = len(v)
    if n != 4 or not getattr(_triangulate, 'general_quad', False):
        return _fan(v)
    area2 = sum(v[i][0] * v[(i + 1) % 4][1] - v[(i + 1) % 4][0] * v[i][1] for i in range(4))
    sgn = 1 if bool(area2 > 0) else -1
    for r in range(4):
        turn = _cross(v[(r - 1) % 4], v[r], v[(r + 1) % 4][0], v[(r + 1) % 4][1]) * sgn
        if bool(turn < 0):          # reflex vertex: the diagonal r -> r+2 is interior
            return np.array([[r, (r + 1) % 4, (r + 2) % 4], [r, (r + 2) % 4, (r + 3) % 4]], dtype=np.int32)
    return _fan(v)


def _mask_universe():
    from symx.universe import Universe
    return Universe(stubs={'triangulate2d': _triangulate, 'Discrete2DMesh': _Mesh2D})


def _proper_cross(ex, a, b, c, d):
    """segments ab and cd cross in an interior point"""
    return ex.all([_cross(a, b, c[0], c[1]) * _cross(a, b, d[0], d[1]) < 0, _cross(c, d, a[0], a[1]) * _cross(c, d, b[0], b[1]) < 0])


def _general_quad(ex, mk, vs):
    """any simple quadrilateral (convex or with one reflex vertex, either orientation) against the crossing-number rule"""
    n = 4
    for i in range(n):
        for j in range(i + 1, n):
            for k in range(j + 1, n):
                ex.assume(ex.not_(ex.eq(_cross(vs[i], vs[j], vs[k][0], vs[k][1]), 0)), 'general position: no three vertices collinear')
    ex.assume(ex.not_(_proper_cross(ex, vs[0], vs[1], vs[2], vs[3])), 'simple polygon: opposite edges do not cross')
    ex.assume(ex.not_(_proper_cross(ex, vs[1], vs[2], vs[3], vs[0])), 'simple polygon: opposite edges do not cross')
    x, y = ex.real('px'), ex.real('py')
    for i in range(n):
        ex.assume(ex.not_(ex.eq(_cross(vs[i], vs[(i + 1) % n], x, y), 0)), 'not on the boundary')
        ex.assume(ex.not_(ex.eq(vs[i][1], y)), 'not level with a vertex (the crossing-number rule needs no tie-break)')
    m = mk.PolygonMask2D([[vx, vy] for vx, vy in vs])
    got = m(x, y)
    # crossing number of the horizontal ray from the point towards +x
    crossings = 0
    for i in range(n):
        a, b = vs[i], vs[(i + 1) % n]
        if bool(a[1] > y) != bool(b[1] > y):
            # x coordinate of the edge at height y, compared without division: sign(b.y - a.y) decides the direction
            lhs = (x - a[0]) * (b[1] - a[1])
            rhs = (y - a[1]) * (b[0] - a[0])
            right = bool(lhs < rhs) if bool(b[1] > a[1]) else bool(lhs > rhs)
            if right:
                crossings += 1
    inside = crossings % 2 == 1
    ex.cover('inside' if inside else 'outside')
    ex.prove(ex.eq(got, 1 if inside else 0), 'PolygonMask2D==point-in-polygon(crossing-number)-for-every-simple-quadrilateral')
    ex.prove(len(_Mesh2D.made) == 1 and not _Mesh2D.made[0].limit, 'mask-never-raises-outside-the-polygon')
    ex.sample({'n': 4, 'free_vertex': [i for i in range(4) if not isinstance(vs[i][0], float)]})


def _replay_mask(model, label, n=4, general=None, **kw):
    """the counterexample on the compiled PolygonMask2D (public API) against an independent crossing-number test"""
    from cherab.core.math import PolygonMask2D
    g = lambda k: float(core.model_float(model[k])) if k in model else 0.0
    vs = [(g('vx%d' % i), g('vy%d' % i)) for i in range(n)]
    if general is not None:
        corners = [(0.0, 0.0), (1.0, 0.0), (1.0, 1.0), (0.0, 1.0)]
        vs = [vs[i] if i == general else corners[i] for i in range(4)]
    x, y = g('px'), g('py')
    got = PolygonMask2D(vs)(x, y)
    cr = [_cross(vs[i], vs[(i + 1) % n], x, y) for i in range(n)]
    if min(abs(c) for c in cr) < 1e-9:
        return {'reproduced': False, 'note': 'point on an edge (rounding decides)'}
    crossings = 0
    for i in range(n):
        a, b = vs[i], vs[(i + 1) % n]
        if (a[1] > y) != (b[1] > y) and x < a[0] + (y - a[1]) * (b[0] - a[0]) / (b[1] - a[1]):
            crossings += 1
    inside = crossings % 2 == 1
    return {'reproduced': (got == 1.0) != inside, 'mask': got, 'inside': inside, 'vertices': vs, 'point': [x, y]}


@harness('C13', name='polygon_mask', universe=_mask_universe, replay_real=_replay_mask,
         tiers={'quick': [{'n': 3}, {'n': 4}, {'n': 4, 'general': 0}, {'n': 4, 'general': 3}],
                'thorough': [{'n': 3}, {'n': 4}, {'n': 5}, {'n': 6}] + [{'n': 4, 'general': k} for k in range(4)]},
         functions=[M + 'mask.PolygonMask2D.__init__', M + 'mask.PolygonMask2D.evaluate'], cover=['inside', 'outside'],
         bounds={'polygon': 'strictly convex counter-clockwise n-gon, n concrete per job, or (general = k) every simple quadrilateral in general position, '
                            'convex or with a reflex vertex, whose vertex k is symbolic and whose other vertices are corners of the unit square '
                            '(the fully symbolic quadrilateral did not finish: degree-4 real arithmetic, > 15 min); vertex coordinates symbolic',
                 'point': 'symbolic, not on the boundary (general quadrilaterals: not level with a vertex either)'},
         stubs=['raysect triangulate2d: fan triangulation for convex polygons, split along the interior diagonal for quadrilaterals',
                'raysect Discrete2DMesh: contract (value of the triangle containing the point; outside: ValueError if limit else '
                'default_value)'],
         outside=['non-convex polygons with more than four vertices (need raysect\'s ear-clipping triangulation)', 'points exactly on the boundary',
                  'the compiled mesh search (kd-tree) itself'])
def polygon_mask(ex, uni, n, general=None):
    mk = uni.load(M + 'mask')
    _Mesh2D.made = []
    _triangulate.general_quad = general is not None
    vs = [(ex.real('vx%d' % i), ex.real('vy%d' % i)) for i in range(n)]
    if general is not None:
        corners = [(0.0, 0.0), (1.0, 0.0), (1.0, 1.0), (0.0, 1.0)]
        vs = [vs[i] if i == general else corners[i] for i in range(4)]
        return _general_quad(ex, mk, vs)
    for i in range(n):
        a, b, c = vs[i], vs[(i + 1) % n], vs[(i + 2) % n]
        ex.assume(_cross(a, b, c[0], c[1]) > 0, 'strictly convex, counter-clockwise')
    if n > 3:
        # convexity of a closed chain with all left turns still allows multiple windings for n >= 5: pin one winding by
        # requiring every vertex to be left of every edge
        for i in range(n):
            for j in range(n):
                if j not in (i, (i + 1) % n):
                    ex.assume(_cross(vs[i], vs[(i + 1) % n], vs[j][0], vs[j][1]) > 0, 'every vertex left of every edge')
    x, y = ex.real('px'), ex.real('py')
    cr = [_cross(vs[i], vs[(i + 1) % n], x, y) for i in range(n)]
    for c in cr:
        ex.assume(ex.not_(ex.eq(c, 0)), 'not on the boundary')
    m = mk.PolygonMask2D([[vx, vy] for vx, vy in vs])
    got = m(x, y)
    inside = ex.all([c > 0 for c in cr])
    ex.cover('inside' if bool(inside) else 'outside')
    ex.prove(ex.eq(got, ex.ite(inside, 1, 0)), 'PolygonMask2D==1-inside-the-polygon,0-outside')
    ex.prove(len(_Mesh2D.made) == 1 and not _Mesh2D.made[0].limit, 'mask-never-raises-outside-the-polygon')
    mv = _Mesh2D.made[0].v
    ex.prove(ex.all([ex.all([ex.eq(mv[i][0], vs[i][0]), ex.eq(mv[i][1], vs[i][1])]) for i in range(n)]), 'mesh-built-on-the-given-vertices')
    ex.sample({'n': n})

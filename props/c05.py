"""C05 — beam CX emission is a population-weighted mean, beam emission a charged sum (model/beam/*.pyx, plasma/node.pyx)."""
import math

from symx.harness import harness
from symx import core, rs_model
from symx.core import MATH
from symx.universe import Universe
from props import plasma_world as W

MB = 'cherab.core.model.beam.'
FOUR_PI = 4 * math.pi

Hb = W.El('hydrogen', 1, 1.00797)
C = W.El('C', 6, 12.011)
He = W.El('He', 2, 4.0026)


class NullRate:
    def __init__(self):
        self.calls = []

    def evaluate(self, *a):
        self.calls.append(a)
        return 0.0


class AD(W.AtomicData):
    """provider: beam CX PEC per metastable (1 = ground); population / emission coefficients for neutrals are null rates"""
    def __init__(self, ex, nmeta):
        W.AtomicData.__init__(self, ex)
        self.nmeta = nmeta

    def beam_cx_pec(self, donor, receiver, charge, transition):
        self.requests.append(('beam_cx_pec', donor, receiver, charge, transition))
        out = []
        for m in range(1, self.nmeta + 1):
            r = self._rate('beam_cx_pec_m%d' % m, donor, receiver, charge, transition)
            self.requests.pop()
            r.donor_metastable = m
            out.append(r)
        return out

    def beam_population_rate(self, beam_el, metastable, target_el, target_charge):
        self.requests.append(('beam_population_rate', beam_el, metastable, target_el, target_charge))
        if target_charge == 0:
            return NullRate()
        r = self._rate('beam_population_rate', beam_el, metastable, target_el, target_charge)
        self.requests.pop()
        return r

    def beam_emission_pec(self, beam_el, target_el, target_charge, transition):
        self.requests.append(('beam_emission_pec', beam_el, target_el, target_charge, transition))
        if target_charge == 0:
            return NullRate()
        r = self._rate('beam_emission_pec', beam_el, target_el, target_charge, transition)
        self.requests.pop()
        return r


class BeamStub:
    def __init__(self, ex, element):
        from cherab.core.utility.notify import Notifier
        self.ex, self.element = ex, element
        self.notifier = Notifier()
        self.energy = ex.real('beam_energy', pos=True)
        self.nb = ex.real('n_beam', nonneg=True)

    def density(self, x, y, z):
        return self.nb

    def get_energy(self):
        return self.energy


class Plasma5(W.PlasmaStub):
    """ion_density / z_effective are the plasma's own methods (checked in plasma_moments): here tagged symbols"""
    def __init__(self, ex, species):
        W.PlasmaStub.__init__(self, ex, species, b_field=None)
        bx, by, bz = ex.real('Bx'), ex.real('By'), ex.real('Bz')
        self._b = type('B', (), {'evaluate': lambda s, x, y, z: rs_model.Vector3D(bx, by, bz)})()
        self.nion, self.zeff = ex.real('total_ion_density', nonneg=True), ex.real('z_effective', lo=1)
        self.bvec = (bx, by, bz)

    def ion_density(self, x, y, z):
        return self.nion

    def z_effective(self, x, y, z):
        return self.zeff


def _species(ex, spec):
    out = []
    for el, q in spec:
        s = W.Species(ex, el, q)
        out.append(s)
    return out


def _eint(mod, vb, sp, pt):
    """interaction energy of the beam (velocity vb along z) with species sp: E[eV/amu] of |v_beam - v_species|"""
    v = sp.distribution.bulk_velocity(pt.x, pt.y, pt.z)
    speed = rs_model.Vector3D(0.0, 0.0, vb).sub(v).get_length()       # raysect vector algebra (model)
    return mod.ms_to_evamu(speed)


SPEC5 = [(C, 6), (C, 5), (He, 2), (Hb, 1), (Hb, 0)]


def _universe():
    return Universe(stubs={'hydrogen': Hb, 'Isotope': type('Isotope', (), {})})


@harness('C05', name='beam_cx', universe=_universe, tiers={'quick': [{'nmeta': n} for n in (1, 2)], 'thorough': [{'nmeta': n} for n in (1, 2, 3)]},
         functions=[MB + 'charge_exchange.BeamCXLine.emission', MB + 'charge_exchange.BeamCXLine._composite_cx_rate',
                    MB + 'charge_exchange.BeamCXLine._beam_population', MB + 'charge_exchange.BeamCXLine._populate_cache'],
         cover=['emitting', 'dark'],
         bounds={'composition': 'C6+, C5+, He2+, H+ and a neutral (null coefficients); beam along +z', 'metastables': 'number of beam metastables concrete per job',
                 'values': 'beam energy / density, ion densities >= 0, temperatures, flow velocities, B vector, total ion density, Z_eff symbolic'},
         stubs=['rate coefficients: non-negative uninterpreted functions tagged by what was requested', 'line shape: recording stub',
                'Plasma.ion_density / z_effective: symbols here (their own definitions are checked in plasma_moments)', 'sqrt: root variable'],
         outside=['the line shape (C02)', 'floating-point rounding'])
def beam_cx(ex, uni, nmeta):
    ex.div_policy = 'total'
    mod = uni.load(MB + 'charge_exchange')
    base = uni.load('cherab.core.model.lineshape.base').LineShapeModel
    Rec = W.make_recording_lineshape(base)
    species = _species(ex, SPEC5)
    for s in species:
        ex.assume(s.distribution.density(0, 0, 0) >= 0, 'species densities are non-negative')
    plasma = Plasma5(ex, species)
    beam = BeamStub(ex, Hb)
    ad = AD(ex, nmeta)
    line = W.Line(C, 5, (8, 7))
    m = mod.BeamCXLine(line, lineshape=Rec)
    m._beam, m._plasma, m._atomic_data = beam, plasma, ad
    pt = rs_model.Point3D(ex.real('px'), ex.real('py'), ex.real('pz'))
    bpt = rs_model.Point3D(ex.real('bx'), ex.real('by'), ex.real('bz'))
    bdir = rs_model.Vector3D(0.0, 0.0, 1.0)
    odir = rs_model.Vector3D(ex.real('ox'), ex.real('oy'), ex.real('oz'))
    sp = uni.rs.Spectrum(400.0, 500.0, 2)
    m.emission(bpt, pt, bdir, odir, sp)
    rec = species[0]
    nrec = rec.distribution.density(pt.x, pt.y, pt.z)
    trec = rec.distribution.effective_temperature(pt.x, pt.y, pt.z)
    called = [c for r in Rec.created for c in r.calls]
    dark = ex.any([ex.eq(beam.nb, 0), ex.eq(nrec, 0), ex.eq(trec, 0)])
    if not called:
        ex.cover('dark')
        ex.prove(dark, 'no-emission-only-where-beam-or-receiver-density-(or-receiver-temperature)-is-zero')
        return
    ex.cover('emitting')
    ex.prove(ex.not_(dark), 'emits-only-where-beam-and-receiver-are-present')
    rad = called[0][0]
    vb = mod.evamu_to_ms(beam.energy)
    e_int = _eint(mod, vb, rec, pt)
    bmag = MATH.sqrt(plasma.bvec[0] * plasma.bvec[0] + plasma.bvec[1] * plasma.bvec[1] + plasma.bvec[2] * plasma.bvec[2])
    args = (e_int, trec, plasma.nion, plasma.zeff, bmag)
    q = [ex.uf('ad_beam_cx_pec_m%d_hydrogen_C_6_8x7' % mm, *args, nonneg=True) for mm in range(1, nmeta + 1)]
    # relative populations of the excited beam states: charge-density-weighted mean of the population coefficients
    dsum = 0
    for s in species:
        dsum = dsum + s.charge * s.charge * s.distribution.density(pt.x, pt.y, pt.z)
    ks = []
    for mm in range(2, nmeta + 1):
        num = tot = 0
        for s in species:
            if s.charge == 0:
                continue
            ns = s.distribution.density(pt.x, pt.y, pt.z)
            coeff = ex.uf('ad_beam_population_rate_hydrogen_%d_%s_%d' % (mm, s.element.name, s.charge), _eint(mod, vb, s, pt), dsum / s.charge,
                          s.distribution.effective_temperature(pt.x, pt.y, pt.z), nonneg=True)
            num = num + ns * s.charge * coeff
            tot = tot + ns * s.charge
        ks.append(num / tot)
    qeff = (q[0] + sum((k * qq for k, qq in zip(ks, q[1:])), 0)) / (1 + sum(ks, 0))
    ex.prove(ex.eq(rad, (1 / FOUR_PI) * beam.nb * nrec * qeff), 'radiance==(1/4pi)*n_beam*n_receiver*population-weighted-mean-coefficient')
    if nmeta > 1:
        lo, hi = q[0], q[0]
        for qq in q[1:]:
            lo, hi = ex.ite(qq < lo, qq, lo), ex.ite(qq > hi, qq, hi)
        ex.lemma(ex.all([ex.le(0, k) for k in ks]), 'populations-non-negative')
        ex.prove(ex.all([ex.le(lo, qeff), ex.le(qeff, hi)]), 'mean-coefficient-between-smallest-and-largest-individual-coefficient')
    # what the provider was asked for
    want = [('beam_cx_pec', Hb, C, 6, (8, 7))]
    for mm in range(2, nmeta + 1):
        want += [('beam_population_rate', Hb, mm, s.element, s.charge) for s in species]
    ex.prove([r for r in ad.requests if r[0] != 'wavelength'] == want, 'coefficients-requested-for-(beam-element,receiver,charge+1,transition)-and-every-species')
    ctor = Rec.created[0].ctor
    ex.prove(ctor[0] is line and ctor[2] is rec and ctor[1] == ad.wavelength(C, 5, (8, 7)), 'line-shape-for-the-receiver-species-and-line-wavelength')
    ex.prove(called[0][1] is pt and called[0][2] is odir, 'plasma-point-and-observation-direction-forwarded')
    ex.sample({'metastables': nmeta})


@harness('C05', name='beam_emission', universe=_universe, tiers={'quick': [{}], 'thorough': [{}]},
         functions=[MB + 'beam_emission.BeamEmissionLine.emission', MB + 'beam_emission.BeamEmissionLine._beam_emission_rate',
                    MB + 'beam_emission.BeamEmissionLine._populate_cache'],
         cover=['emitting', 'dark'], bounds={'composition': 'as beam_cx'}, stubs=['as beam_cx; BeamEmissionMultiplet: recording stub'],
         outside=['the MSE line shape (C02)'])
def beam_emission(ex, uni):
    ex.div_policy = 'total'
    mod = uni.load(MB + 'beam_emission')
    made = []

    class RecMSE:
        def __init__(self, *a):
            self.ctor, self.calls = a, []
            made.append(self)

        def add_line(self, radiance, *a):
            self.calls.append((radiance,) + a)
            return a[-1]
    mod.BeamEmissionMultiplet = RecMSE
    species = _species(ex, SPEC5)
    plasma = Plasma5(ex, species)
    beam = BeamStub(ex, Hb)
    ad = AD(ex, 1)
    line = W.Line(Hb, 0, (3, 2))
    m = mod.BeamEmissionLine(line)
    m._beam, m._plasma, m._atomic_data = beam, plasma, ad
    pt = rs_model.Point3D(ex.real('px'), ex.real('py'), ex.real('pz'))
    bpt = rs_model.Point3D(ex.real('bx'), ex.real('by'), ex.real('bz'))
    bdir = rs_model.Vector3D(0.0, 0.0, 1.0)
    odir = rs_model.Vector3D(ex.real('ox'), ex.real('oy'), ex.real('oz'))
    sp = uni.rs.Spectrum(400.0, 500.0, 2)
    m.emission(bpt, pt, bdir, odir, sp)
    called = [c for r in made for c in r.calls]
    if not called:
        ex.cover('dark')
        ex.prove(ex.eq(beam.nb, 0), 'no-emission-only-where-the-beam-density-is-zero')
        return
    ex.cover('emitting')
    ex.prove(ex.not_(ex.eq(beam.nb, 0)), 'emits-only-where-the-beam-is-present')
    vb = mod.evamu_to_ms(beam.energy)
    dsum = 0
    for s in species:
        dsum = dsum + s.charge * s.charge * s.distribution.density(pt.x, pt.y, pt.z)
    tot = 0
    for s in species:
        if s.charge == 0:
            continue
        q = ex.uf('ad_beam_emission_pec_hydrogen_%s_%d_3x2' % (s.element.name, s.charge), _eint(mod, vb, s, pt), dsum / s.charge,
                  s.distribution.effective_temperature(pt.x, pt.y, pt.z), nonneg=True)
        tot = tot + s.charge * s.distribution.density(pt.x, pt.y, pt.z) * q
    ex.prove(ex.eq(called[0][0], (1 / FOUR_PI) * beam.nb * tot), 'radiance==(1/4pi)*n_beam*sum(Z_i*n_i*q_i(E_int,i,sum(Z^2 n)/Z_i,T_i))')
    ex.prove([r for r in ad.requests if r[0] == 'beam_emission_pec'] == [('beam_emission_pec', Hb, s.element, s.charge, (3, 2)) for s in species],
             'one-coefficient-per-plasma-species')
    for bad in (W.Line(C, 0, (3, 2)), W.Line(Hb, 1, (3, 2))):
        try:
            mm = mod.BeamEmissionLine(bad)
            mm._beam, mm._plasma, mm._atomic_data = beam, plasma, ad
            mm.emission(bpt, pt, bdir, odir, sp)
            ok = False
        except (TypeError, ValueError):
            ok = True
        ex.prove(ok, 'line-of-another-element-or-of-an-ion-is-rejected')
    ex.sample({'species': len(species)})


@harness('C05', name='plasma_moments', universe=_universe, tiers={'quick': [{}], 'thorough': [{}]},
         functions=['cherab.core.plasma.node.Plasma.z_effective', 'cherab.core.plasma.node.Plasma.ion_density'], cover=['evaluated'],
         bounds={'composition': 'five species incl. a neutral; densities symbolic non-negative'}, stubs=['Plasma object built directly around a composition'],
         outside=[])
def plasma_moments(ex, uni):
    node = uni.load('cherab.core.plasma.node')
    P = node.Plasma
    p = P.__new__(P)
    species = _species(ex, SPEC5)
    p._composition = W.Composition(species)
    x, y, z = ex.real('x'), ex.real('y'), ex.real('z')
    ns = [s.distribution.density(x, y, z) for s in species]
    for n_ in ns:
        ex.assume(n_ >= 0)
    ex.assume(ns[0] + ns[1] + ns[2] + ns[3] > 0, 'some ionised species present')
    ex.cover('evaluated')
    ex.prove(ex.eq(p.ion_density(x, y, z), sum(ns[1:], ns[0])), 'ion_density==sum-of-all-species-densities(documented)')
    nz = sum((n_ * s.charge for n_, s in zip(ns, species)), 0)
    nz2 = sum((n_ * s.charge * s.charge for n_, s in zip(ns, species)), 0)
    ex.prove(ex.eq(p.z_effective(x, y, z) * nz, nz2), 'z_effective==sum(n*Z^2)/sum(n*Z)')
    ex.sample({'species': len(species)})

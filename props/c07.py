"""C07 — OpenADAS provider and rate objects (openadas.py from source; rates/*.pyx translated; interpolators by contract)."""
import types
import itertools
import numpy as np

from symx.harness import harness
from symx import core, rs_model
from symx.core import MATH
from symx.universe import Universe

OA = 'cherab.openadas.openadas'
RATES = 'cherab.openadas.rates.'
HC = 6.62607015e-34 * 299792458.0 * 1e9


# ------------------------------------------------------------------------------------------------ interpolator contract
class _Interp:
    """raysect Interpolator{1,2,3}DArray by contract: table value at a grid node; outside the grid: ValueError when the
    extrapolation type is 'none', some finite value otherwise; inside: some finite value (uninterpreted)."""
    count = 0

    def __init__(self, ndim, args):
        self.axes = [np.asarray(a) for a in args[:ndim]]
        self.f = np.asarray(args[ndim])
        self.itype, self.extrap = args[ndim + 1], args[ndim + 2]
        _Interp.count += 1
        self.uid = _Interp.count
        self.ndim = ndim

    def evaluate(self, *p):
        ex = core.CUR
        idx = []
        outside = False
        for ax, v in zip(self.axes, p):
            hit = None
            for i in range(len(ax)):
                if v == ax[i]:
                    hit = i
                    break
            if hit is None:
                if v < ax[0] or v > ax[len(ax) - 1]:
                    outside = True
            idx.append(hit)
        if outside:
            if self.extrap == 'none':
                raise ValueError('The specified value is outside of interpolation range (extrapolation not enabled).')
            return ex.uf('extrapolated_%d' % self.uid, *p)
        if all(i is not None for i in idx):
            return self.f[tuple(idx)]
        return ex.uf('interpolated_%d' % self.uid, *p)

    def __call__(self, *p):
        return self.evaluate(*p)


class I1(_Interp, rs_model.Function1D):
    def __init__(self, *a):
        _Interp.__init__(self, 1, a)


class I2(_Interp, rs_model.Function2D):
    def __init__(self, *a):
        _Interp.__init__(self, 2, a)


class I3(_Interp, rs_model.Function3D):
    def __init__(self, *a):
        _Interp.__init__(self, 3, a)


def _universe():
    return Universe(stubs={'Interpolator1DArray': I1, 'Interpolator2DArray': I2, 'Interpolator3DArray': I3})


def _axis(ex, name, n):
    """strictly increasing positive axis"""
    vals = [ex.real('%s_0' % name, pos=True)]
    for i in range(1, n):
        d = ex.real('%s_d%d' % (name, i), pos=True)
        vals.append(vals[-1] + d)
    return np.array(vals, dtype=object if ex.sym else float)


def _table(ex, name, shape):
    a = np.empty(shape, dtype=object if ex.sym else float)
    for idx in itertools.product(*[range(s) for s in shape]):
        a[idx] = ex.real('%s_%s' % (name, '_'.join(map(str, idx))), pos=True)
    return a


KINDS = ['node', 'interior', 'below', 'above', 'nonpositive']


def _point(ex, name, axis, kinds=KINDS):
    """evaluation coordinate of a symbolically chosen kind relative to one axis; returns (value, kind, node index)"""
    n = len(axis)
    opts = [('node', i) for i in range(n)] + [(k, None) for k in kinds if k != 'node' and not (k == 'interior' and n < 2)]
    kind, i = ex.choice('kind_' + name, opts)
    if kind == 'node':
        return axis[i], kind, i
    v = ex.real('p_' + name)
    if kind == 'interior':
        ex.assume(v > axis[0])
        ex.assume(v < axis[1])
    elif kind == 'below':
        ex.assume(v > 0)
        ex.assume(v < axis[0])
        ex.assume(v * 10 >= axis[0], 'at most one decade below the tabulated range')
    elif kind == 'above':
        ex.assume(v > axis[n - 1])
        ex.assume(v <= axis[n - 1] * 10, 'at most one decade above the tabulated range')
    else:
        ex.assume(v <= 0)
    return v, kind, None


def _run(fn):
    try:
        return fn(), None
    except ValueError as e:
        return None, e


def _judge(ex, label, result, err, kinds, node_value, extrapolate):
    """range / missing-data policy for one evaluation"""
    if 'nonpositive' in kinds:
        ex.prove(err is None and ex.eq(result, 0) if err is None else False, label + ':non-positive-argument=>0')
        return
    outside = any(k in ('below', 'above') for k in kinds)
    if outside:
        if extrapolate:
            ex.prove(err is None and (ex.le(0, result) if err is None else False), label + ':outside-range+extrapolation=>finite>=0')
        else:
            ex.prove(err is not None, label + ':outside-range-without-extrapolation=>raises')
        return
    ex.prove(err is None, label + ':inside-range-never-raises')
    if err is not None:
        return
    ex.prove(ex.le(0, result), label + ':non-negative')
    if all(k == 'node' for k in kinds):
        ex.prove(ex.eq(result, node_value), label + ':grid-point=>stored-value*documented-factor')


TWO_D = {
    'IonisationRate': ('atomic', 'plain'), 'RecombinationRate': ('atomic', 'plain'), 'ThermalCXRate': ('atomic', 'plain'),
    'ImpactExcitationPEC': ('pec', 'photon'), 'RecombinationPEC': ('pec', 'photon'),
    'LineRadiationPower': ('radiated_power', 'power'), 'ContinuumPower': ('radiated_power', 'power'), 'CXRadiationPower': ('radiated_power', 'power'),
}


@harness('C07', name='rates_2d', universe=_universe,
         tiers={'quick': [{'cls': c, 'shape': s} for c in TWO_D for s in ((2, 2),)],
                'thorough': [{'cls': c, 'shape': s} for c in TWO_D for s in ((2, 2), (1, 2), (2, 1), (3, 2))]},
         functions=[RATES + 'atomic.*', RATES + 'pec.ImpactExcitationPEC', RATES + 'pec.RecombinationPEC', RATES + 'radiated_power.*',
                    'cherab.core.utility.conversion.PhotonToJ'],
         cover=['evaluated'],
         bounds={'grid': 'table shape concrete per job', 'values': 'axes strictly increasing positive, table entries positive, wavelength '
                 'positive: all symbolic; evaluation point: node / interior / up to one decade outside / non-positive per axis (symbolic choice)'},
         stubs=['raysect cubic interpolators: contract (node value; outside: ValueError iff extrapolation none)',
                'log10 / 10**x: uninterpreted, mutually inverse, monotone'],
         outside=['interpolated values between grid points', 'floating-point rounding'])
def rates_2d(ex, uni, cls, shape):
    modname, kind = TWO_D[cls]
    mod = uni.load(RATES + modname)
    K = getattr(mod, cls)
    extrap = bool(ex.choice('extrapolate', [False, True]))
    ne = _axis(ex, 'ne', shape[0])
    te = _axis(ex, 'te', shape[1])
    rate = _table(ex, 'rate', shape)
    data = {'ne': ne, 'te': te, 'rate': rate}
    p0, k0, i0 = _point(ex, 'ne', ne)
    p1, k1, i1 = _point(ex, 'te', te)
    if kind == 'plain':
        obj = K(data, extrapolate=extrap)
        factor = 1
    elif kind == 'photon':
        wl = ex.real('wavelength', pos=True)
        obj = K(wl, data, extrapolate=extrap)
        factor = HC / wl
    else:
        obj = K('species', 1, data, extrapolate=extrap)
        factor = 1
    res, err = _run(lambda: obj.evaluate(p0, p1))
    ex.cover('evaluated')
    node = rate[i0, i1] * factor if (i0 is not None and i1 is not None) else None
    _judge(ex, cls, res, err, (k0, k1), node, extrap)
    ex.prove(ex.all([ex.eq(obj.density_range[0], ne[0]), ex.eq(obj.density_range[1], ne[-1]), ex.eq(obj.temperature_range[0], te[0]),
                     ex.eq(obj.temperature_range[1], te[-1])]), cls + ':reported-ranges')
    ex.sample({'class': cls, 'shape': list(shape), 'kinds': [k0, k1], 'extrapolate': extrap})


@harness('C07', name='thermal_cx_pec', universe=_universe,
         tiers={'quick': [{'shape': (2, 2, 2)}], 'thorough': [{'shape': (2, 2, 2)}, {'shape': (1, 2, 2)}, {'shape': (2, 1, 2)}]},
         functions=[RATES + 'pec.ThermalCXPEC'], cover=['evaluated'],
         bounds={'grid': 'ne x te x td table, shape concrete per job'}, stubs=['as rates_2d'], outside=['as rates_2d'])
def thermal_cx_pec(ex, uni, shape):
    mod = uni.load(RATES + 'pec')
    extrap = bool(ex.choice('extrapolate', [False, True]))
    ne, te, td = _axis(ex, 'ne', shape[0]), _axis(ex, 'te', shape[1]), _axis(ex, 'td', shape[2])
    rate = _table(ex, 'rate', shape)
    wl = ex.real('wavelength', pos=True)
    pts = [_point(ex, n, a, ['node', 'below', 'above', 'nonpositive']) for n, a in (('ne', ne), ('te', te), ('td', td))]
    obj = mod.ThermalCXPEC(wl, {'ne': ne, 'te': te, 'td': td, 'rate': rate}, extrapolate=extrap)
    res, err = _run(lambda: obj.evaluate(pts[0][0], pts[1][0], pts[2][0]))
    ex.cover('evaluated')
    idx = tuple(p[2] for p in pts)
    node = rate[idx] * (HC / wl) if all(i is not None for i in idx) else None
    _judge(ex, 'ThermalCXPEC', res, err, tuple(p[1] for p in pts), node, extrap)
    ex.sample({'shape': list(shape), 'kinds': [p[1] for p in pts]})


BEAM = ['BeamStoppingRate', 'BeamPopulationRate', 'BeamEmissionPEC']


@harness('C07', name='beam_rates', universe=_universe,
         tiers={'quick': [{'cls': c, 'shape': s} for c in BEAM for s in ((2, 2, 2), (1, 1, 2))],
                'thorough': [{'cls': c, 'shape': s} for c in BEAM for s in ((2, 2, 2), (1, 1, 2), (1, 2, 2), (2, 1, 2))]},
         functions=[RATES + 'beam.*'], cover=['evaluated'],
         bounds={'grid': 'e x n table and t vector, sizes concrete per job (single-point axes take the Constant / IsoMapper branches)'},
         stubs=['as rates_2d'], outside=['as rates_2d'])
def beam_rates(ex, uni, cls, shape):
    mod = uni.load(RATES + 'beam')
    K = getattr(mod, cls)
    extrap = bool(ex.choice('extrapolate', [False, True]))
    e, n, t = _axis(ex, 'e', shape[0]), _axis(ex, 'n', shape[1]), _axis(ex, 't', shape[2])
    sen = _table(ex, 'sen', (shape[0], shape[1]))
    st = _table(ex, 'st', (shape[2],))
    sref = ex.real('sref', pos=True)
    data = {'e': e, 'n': n, 't': t, 'sen': sen, 'st': st, 'sref': sref, 'eref': 1.0, 'nref': 1.0, 'tref': 1.0}
    kinds_e = ['node', 'below', 'above', 'nonpositive'] if shape[0] > 1 else ['node', 'nonpositive']
    kinds_n = ['node', 'below', 'above', 'nonpositive'] if shape[1] > 1 else ['node', 'nonpositive']
    pe = _point(ex, 'e', e, kinds_e)
    pn = _point(ex, 'n', n, kinds_n)
    pt = _point(ex, 't', t, ['node', 'below', 'above', 'nonpositive'])
    if cls == 'BeamEmissionPEC':
        wl = ex.real('wavelength', pos=True)
        obj = K(data, wl, extrapolate=extrap)
        factor = HC / wl
    else:
        obj = K(data, extrapolate=extrap)
        factor = 1
    res, err = _run(lambda: obj.evaluate(pe[0], pn[0], pt[0]))
    ex.cover('evaluated')
    idx = (pe[2], pn[2], pt[2])
    node = sen[idx[0], idx[1]] * factor * st[idx[2]] / sref if all(i is not None for i in idx) else None
    _judge(ex, cls, res, err, (pe[1], pn[1], pt[1]), node, extrap)
    ex.sample({'class': cls, 'shape': list(shape), 'kinds': [pe[1], pn[1], pt[1]]})


@harness('C07', name='beam_cx_pec', universe=_universe,
         tiers={'quick': [{'n': 2}, {'n': 1}], 'thorough': [{'n': 2}, {'n': 1}, {'n': 3}]},
         functions=[RATES + 'cx.BeamCXPEC'], cover=['evaluated'],
         bounds={'grid': 'five 1D tables of n points each (n = 1 takes the Constant1D branch)'}, stubs=['as rates_2d'], outside=['as rates_2d'])
def beam_cx_pec(ex, uni, n):
    mod = uni.load(RATES + 'cx')
    extrap = bool(ex.choice('extrapolate', [False, True]))
    wl = ex.real('wavelength', pos=True)
    qref = 1.25        # concrete reference value keeps the five-factor product within reach of the NRA solver
    data = {'qref': qref}
    axes = {}
    for k in ('eb', 'ti', 'ni', 'z', 'b'):
        axes[k] = _axis(ex, k, n)
        data[k] = axes[k]
        data['q' + k] = _table(ex, 'q' + k, (n,))
    obj = mod.BeamCXPEC(0, wl, data, extrapolate=extrap)
    kinds = ['node', 'below', 'above'] if n > 1 else ['node']
    pts = {'eb': _point(ex, 'eb', axes['eb'], kinds + ['nonpositive'])}
    for k in ('ti', 'ni', 'z', 'b'):
        pts[k] = _point(ex, k, axes[k], kinds)
    res, err = _run(lambda: obj.evaluate(pts['eb'][0], pts['ti'][0], pts['ni'][0], pts['z'][0], pts['b'][0]))
    ex.cover('evaluated')
    ks = tuple(pts[k][1] for k in ('eb', 'ti', 'ni', 'z', 'b'))
    node = None
    if all(pts[k][2] is not None for k in pts):
        i = {k: pts[k][2] for k in pts}
        node = (data['qeb'][i['eb']] * (HC / wl)) * data['qti'][i['ti']] * data['qni'][i['ni']] * data['qz'][i['z']] * data['qb'][i['b']] / (qref * qref * qref * qref)
    if ks[0] == 'nonpositive':
        ex.prove(err is None and (ex.eq(res, 0) if err is None else False), 'BeamCXPEC:non-positive-energy=>0')
    else:
        _judge(ex, 'BeamCXPEC', res, err, ks, node, extrap)
    ex.prove(obj.donor_metastable == 0, 'BeamCXPEC:donor-metastable-kept')
    ex.sample({'points_per_axis': n, 'kinds': list(ks)})


# ------------------------------------------------------------------------------------------------ provider logic
class El:
    def __init__(self, name):
        self.name, self.symbol, self.atomic_number = name, name, 1

    def __repr__(self):
        return 'El(%s)' % self.name


class Iso(El):
    def __init__(self, name, element):
        El.__init__(self, name)
        self.element = element


ACCESSORS = {
    # accessor: (getter, args builder, which args are species, data-backed class name, extra wavelength lookup spec)
    'ionisation_rate': ('get_ionisation_rate', 'SC', 'IonisationRate', None),
    'recombination_rate': ('get_recombination_rate', 'SC', 'RecombinationRate', None),
    'thermal_cx_rate': ('get_thermal_cx_rate', 'SCSC', 'ThermalCXRate', None),
    'beam_cx_pec': ('get_beam_cx_rates', 'SSCT', 'BeamCXPEC', (1, 2, -1)),
    'beam_stopping_rate': ('get_beam_stopping_rate', 'SSC', 'BeamStoppingRate', None),
    'beam_population_rate': ('get_beam_population_rate', 'SCSC', 'BeamPopulationRate', None),
    'beam_emission_pec': ('get_beam_emission_rate', 'SSCT', 'BeamEmissionPEC', (0, None, 0)),
    'impact_excitation_pec': ('get_pec_excitation_rate', 'SCT', 'ImpactExcitationPEC', (0, 1, 0)),
    'recombination_pec': ('get_pec_recombination_rate', 'SCT', 'RecombinationPEC', (0, 1, 0)),
    'thermal_cx_pec': ('get_pec_thermal_cx_rate', 'SCSCT', 'ThermalCXPEC', (2, 3, -1)),
    'line_radiated_power_rate': ('get_line_radiated_power_rate', 'SC', 'LineRadiationPower', None),
    'continuum_radiated_power_rate': ('get_continuum_radiated_power_rate', 'SC', 'ContinuumPower', None),
    'cx_radiated_power_rate': ('get_cx_radiated_power_rate', 'SC', 'CXRadiationPower', None),
}


@harness('C07', name='provider',
         tiers={'quick': [{'accessor': a} for a in list(ACCESSORS) + ['wavelength']], 'thorough': [{'accessor': a} for a in list(ACCESSORS) + ['wavelength']]},
         functions=[OA + '.OpenADAS.' + a for a in list(ACCESSORS) + ['wavelength']] + [RATES + '*.Null*'],
         cover=['data-present', 'data-missing'],
         bounds={'flags': 'permit_extrapolation, missing_rates_return_null, wavelength_element_fallback: all 8 combinations (symbolic)',
                 'species': 'element or isotope (symbolic choice)', 'repository': 'each getter either returns a token or raises RuntimeError (symbolic)'},
         stubs=['repository.get_*: nondeterministic (token / RuntimeError), arguments recorded', 'data-backed rate classes: recording stubs; '
                'Null* rate classes: the real translated classes, evaluated at symbolic arguments'],
         outside=['the repository itself (C06)', 'the data-backed rate classes (rates_* harnesses)'])
def provider(ex, uni, accessor):
    oa = uni.load(OA)
    g = oa.__dict__
    # `from .rates import *`: bring in the real (translated) rate classes, then replace the data-backed ones by recorders
    for m in ('atomic', 'pec', 'beam', 'cx', 'radiated_power'):
        rm = uni.load(RATES + m)
        for k, v in list(rm.__dict__.items()):
            if isinstance(v, type) and getattr(v, '_sx_cdef_class_', False) and v.__module__ == rm.__name__ if hasattr(v, '__module__') else False:
                g[k] = v
        for k in list(rm.__dict__):
            v = rm.__dict__[k]
            if isinstance(v, type) and k[0].isupper() and not k.startswith('Core'):
                g[k] = v
    made = []

    def recorder(name):
        def ctor(*a, **kw):
            made.append((name, a, kw))
            return ('rate-object', name, len(made) - 1)
        return ctor
    for spec in ACCESSORS.values():
        g[spec[2]] = recorder(spec[2])
    g['Isotope'] = Iso
    calls = []
    present = {}

    class Repo:
        def __getattr__(self, name):
            def get(*a, repository_path='<omitted>'):
                calls.append((name, a, repository_path))
                key = (name, a[0])
                if key not in present:
                    present[key] = bool(ex.bool('present_%d' % len(present)))
                if not present[key]:
                    raise RuntimeError('not available')
                if name == 'get_beam_cx_rates':
                    return [(0, ('data', name, a)), (1, ('data', name, a))]
                if name == 'get_wavelength':
                    return ('wavelength-of', a[0].name)
                return ('data', name, a)
            return get
    g['repository'] = Repo()
    fl_ext = bool(ex.bool('permit_extrapolation'))
    fl_null = bool(ex.bool('missing_rates_return_null'))
    fl_fb = bool(ex.bool('wavelength_element_fallback'))
    prov = oa.OpenADAS(data_path='/DATA', permit_extrapolation=fl_ext, missing_rates_return_null=fl_null, wavelength_element_fallback=fl_fb)
    el_a, el_b = El('A'), El('B')
    use_iso = bool(ex.bool('species_is_isotope'))
    sp_a = Iso('A2', el_a) if use_iso else el_a
    sp_b = Iso('B3', el_b) if use_iso else el_b
    trans = (3, 2)
    if accessor == 'wavelength':
        try:
            wl = prov.wavelength(sp_a, 1, trans)
            err = None
        except RuntimeError as e:
            wl, err = None, e
        names = [c[1][0].name for c in calls]
        if use_iso and fl_fb:
            ok_order = names[0] == 'A2' and (len(names) == 1 or names[1:] == ['A'])
        else:
            ok_order = names == [sp_a.name]
        ex.prove(ok_order and all(c[2] == '/DATA' for c in calls), 'wavelength:isotope-first,element-only-as-enabled-fallback')
        got_any = any(present.get(('get_wavelength', c[1][0])) for c in calls)
        ex.cover('data-present' if got_any else 'data-missing')
        ex.prove((err is None) == got_any, 'wavelength:raises-RuntimeError-iff-nothing-found')
        return
    getter, sig, clsname, wlspec = ACCESSORS[accessor]
    species = [sp_a, sp_b]
    args, k = [], 0
    for ch in sig:
        if ch == 'S':
            args.append(species[k])
            k += 1
        elif ch == 'C':
            args.append(1)
        else:
            args.append(trans)
    try:
        out = getattr(prov, accessor)(*args)
        err = None
    except RuntimeError as e:
        out, err = None, e
    except TypeError as e:
        ex.prove(False, accessor + ':constructing-the-null-rate-must-not-fail', info=str(e)[:150])
        return
    main = [c for c in calls if c[0] == getter]
    ex.prove(len(main) == 1 and main[0][2] == '/DATA', accessor + ':one-repository-lookup-with-the-provider-data-path')
    # isotopes are looked up through their element
    sp_args = [a for a in main[0][1] if isinstance(a, El)] if main else []
    ex.prove(all(not isinstance(a, Iso) for a in sp_args) and [a.name for a in sp_args] == ['A', 'B'][:len(sp_args)],
             accessor + ':rates-requested-for-the-parent-element')
    have = bool(main) and present.get((getter, main[0][1][0]), False)
    wl_calls = [c for c in calls if c[0] == 'get_wavelength']
    wl_ok = (not wl_calls) or any(present.get(('get_wavelength', c[1][0])) for c in wl_calls)
    if not have:
        ex.cover('data-missing')
        if fl_null:
            ex.prove(err is None, accessor + ':missing+null-requested=>returns-a-rate')
            if err is None:
                objs = out if isinstance(out, list) else [out]
                for o in objs:
                    sargs = [ex.real('arg%d' % i) for i in range(6)]
                    import inspect
                    nargs = len(inspect.signature(o.evaluate).parameters)
                    ex.prove(ex.eq(o.evaluate(*sargs[:nargs]), 0), accessor + ':null-rate-is-zero-everywhere')
        else:
            ex.prove(err is not None, accessor + ':missing+no-null=>RuntimeError')
        return
    ex.cover('data-present')
    if wlspec is not None and not wl_ok:
        ex.prove(err is not None, accessor + ':missing-wavelength=>RuntimeError')
        return
    ex.prove(err is None, accessor + ':data-present=>no-error')
    if err is not None:
        return
    objs = out if isinstance(out, list) else [out]
    ex.prove(all(isinstance(o, tuple) and o[1] == clsname for o in objs), accessor + ':returns-' + clsname)
    for o in objs:
        name, a, kw = made[o[2]]
        ex.prove(kw.get('extrapolate') is fl_ext, accessor + ':extrapolate==permit_extrapolation')
        ex.prove(any(isinstance(x, tuple) and x and x[0] == 'data' and x[1] == getter for x in a), accessor + ':built-from-the-repository-data')
    if wlspec is not None:
        si, ci, off = wlspec
        want_species = args[[i for i, ch in enumerate(sig) if ch == 'S'][si if si < 2 else 1]] if False else None
        # the wavelength is requested for the species as given (isotope), with the documented charge
        first = wl_calls[0]
        sp_positions = [i for i, ch in enumerate(sig) if ch == 'S']
        given = args[sp_positions[1]] if accessor in ('beam_cx_pec', 'thermal_cx_pec') else args[sp_positions[0]]
        if accessor == 'thermal_cx_pec':
            ok_sp = first[1][0].name in (given.name, getattr(given, 'element', given).name)
        else:
            ok_sp = first[1][0] is given
        charge_want = 0 if accessor == 'beam_emission_pec' else 1 + off
        ex.prove(ok_sp and first[1][1] == charge_want and first[1][2] == trans and first[2] == '/DATA', accessor + ':wavelength-looked-up-for-the-requested-species')
    ex.sample({'accessor': accessor, 'isotope': use_iso, 'flags': [fl_ext, fl_null, fl_fb]})

"""C02 — line shapes are normalised."""
import math
import random

from symx.harness import harness
from symx import core
from symx.core import MATH

GAUSS = 'cherab.core.model.lineshape.gaussian'


def _sym_spectrum(ex, uni, bins, prefix=''):
    # (min, delta) are the primitives, max = min + bins*delta: every window with max > min is of this form
    mn = ex.real(prefix + 'min_wl', pos=True)
    dl = ex.real(prefix + 'delta_wl', pos=True)
    mx = mn + bins * dl
    sp = uni.rs.Spectrum(mn, mx, bins)
    sp.delta_wavelength = dl   # == (max - min) / bins, stated in the simpler form for the solver
    pre = []
    for i in range(bins):
        v = ex.real('%spre_%d' % (prefix, i))
        sp.samples[i] = v
        pre.append(v)
    return sp, pre


def _validate_gauss(uni, bins):
    """translated add_gaussian_line vs the compiled one on concrete inputs"""
    from raysect.optical import Spectrum
    from cherab.core.model.lineshape import add_gaussian_line as real
    tr = uni.load(GAUSS).add_gaussian_line
    rnd = random.Random(bins)
    n = 0
    for _ in range(20):
        mn = rnd.uniform(300, 600)
        mx = mn + rnd.uniform(0.5, 50)
        wl = rnd.uniform(mn - 5, mx + 5)
        sg = rnd.choice([rnd.uniform(0.001, 3.0), -1.0, 0.0])
        rad = rnd.uniform(0, 10)
        s1 = Spectrum(mn, mx, bins)
        real(rad, wl, sg, s1)
        s2 = uni.rs.Spectrum(mn, mx, bins)
        tr(rad, wl, sg, s2)
        for i in range(bins):
            a, b = s1.samples[i], float(s2.samples[i])
            if abs(a - b) > 1e-9 * max(abs(a), abs(b)) + 1e-300:
                raise core.HarnessError('translator validation failed: add_gaussian_line bin %d: %r vs %r' % (i, a, b))
        n += 1
    return n


def _replay_gauss(model, label, bins):
    """counterexample on the compiled add_gaussian_line"""
    from raysect.optical import Spectrum
    from cherab.core.model.lineshape import add_gaussian_line as real
    g = lambda k, d=0.0: float(core.model_float(model.get(k, d)))
    mn, wl, sg, rad = g('min_wl'), g('wl'), g('sigma'), g('rad')
    mx = mn + bins * g('delta_wl')
    sp = Spectrum(mn, mx, bins)
    pre = [g('pre_%d' % i) for i in range(bins)]
    for i in range(bins):
        sp.samples[i] = pre[i]
    real(rad, wl, sg, sp)
    delta = (mx - mn) / bins
    bad = []
    tot = 0.0
    for i in range(bins):
        added = sp.samples[i] - pre[i]
        a, b = mn + i * delta, mn + (i + 1) * delta
        exp_ = 0.0
        if sg > 0:
            exp_ = rad * 0.5 * (math.erf((b - wl) / (math.sqrt(2) * sg)) - math.erf((a - wl) / (math.sqrt(2) * sg))) / delta
        overlap = sg > 0 and b > wl - 10 * sg and a < wl + 10 * sg
        tol = 1e-7 * max(abs(exp_), abs(pre[i]), 1e-300)
        if overlap and abs(added - exp_) > tol:
            bad.append((i, added, exp_))
        if not overlap and abs(added) > tol and abs(added - exp_) > tol:
            bad.append((i, added, exp_))
    return {'reproduced': bool(bad), 'bins': bad}


@harness('C02', name='gauss_kernel',
         tiers={'quick': [{'bins': b} for b in (1, 2, 3, 4)], 'thorough': [{'bins': b} for b in (1, 2, 3, 4, 5, 6, 7, 8)]},
         functions=[GAUSS + '.add_gaussian_line'], validate=_validate_gauss, replay_real=_replay_gauss,
         cover=['sigma<=0', 'line-below-window', 'line-above-window', 'bins-touched'],
         bounds={'bins': 'concrete per job', 'values': 'all reals (radiance >= 0, min_wl > 0, max > min)'},
         stubs=['raysect Spectrum (model: min/max/bins/delta/samples)', 'erf: uninterpreted + monotone/odd/bounds/tail lemmas'],
         outside=['value of erf beyond the lemma schema', 'floating-point rounding'])
def gauss_kernel(ex, uni, bins):
    g = uni.load(GAUSS)
    sp, pre = _sym_spectrum(ex, uni, bins)
    rad = ex.real('rad', nonneg=True)
    wl = ex.real('wl')
    sigma = ex.real('sigma')
    g.add_gaussian_line(rad, wl, sigma, sp)
    delta = sp.delta_wavelength
    added = [sp.samples[i] - pre[i] for i in range(bins)]
    if sigma <= 0:
        ex.cover('sigma<=0')
        ex.prove(ex.all([ex.eq(a, 0) for a in added]), 'zero-width-adds-nothing')
        return
    cl = wl - 10 * sigma
    cu = wl + 10 * sigma
    if sp.max_wavelength < cl:
        ex.cover('line-above-window')
    if sp.min_wavelength > cu:
        ex.cover('line-below-window')
    k = 1 / (math.sqrt(2.0) * sigma)
    edges = [sp.min_wavelength + delta * j for j in range(bins + 1)]
    z = [(e - wl) * k for e in edges]
    erfs = [MATH.erf(t) for t in z]
    conds = []
    kept = 0.0
    for i in range(bins):
        a, b = edges[i], edges[i + 1]
        frac = 0.5 * (erfs[i + 1] - erfs[i])
        exact = ex.eq(added[i] * delta, rad * frac)
        overlap = ex.all([b > cl, a < cu])
        conds.append(ex.implies(overlap, exact))
        conds.append(ex.implies(ex.not_(overlap), ex.any([exact, ex.eq(added[i], 0)])))
        kept = kept + ex.ite(overlap, frac, 0.0)
    ex.cover('bins-touched')
    ex.prove(ex.all(conds), 'bin-average-of-profile')
    # the fraction of the profile in the bins that must be filled: ordering hints proved first (cut rule)
    ex.lemma(k > 0, 'k>0')
    for j in range(bins + 1):
        ex.lemma(ex.all([ex.implies(edges[j] <= cl, z[j] <= -5), ex.implies(edges[j] >= cu, z[j] >= 5)]), 'tail-edge')
        if j:
            ex.lemma(z[j - 1] < z[j], 'z-ordered')
    ex.prove(ex.all([ex.le(0, kept), ex.le(kept, 1)]), 'kept-fraction-within-[0,1]')
    spans = ex.all([sp.min_wavelength <= cl, cu <= sp.max_wavelength])
    ex.prove(ex.implies(spans, ex.le(1 - 4e-12, kept)), 'window-spans-line=>full-radiance')
    ex.sample({'bins': bins, 'obligations': ['bin-average-of-profile', 'kept-fraction-within-[0,1]', 'window-spans-line=>full-radiance']})


# ================================================================================================ composite line shapes
from symx.universe import Universe
import numpy as np
from symx import rs_model
from props import plasma_world as W

LS = 'cherab.core.model.lineshape.'
EL = W.El('X', 6, 12.011)


def _ls_universe():
    return Universe()


class _Env:
    """common symbolic inputs of a line-shape evaluation + recording of the kernel calls"""
    def __init__(self, ex, uni, modname, field='any'):
        self.ex, self.uni = ex, uni
        self.mod = uni.load(LS + modname)
        self.gauss, self.lorentz = [], []
        # recording kernels keep the kernels' own contract: a line without width adds nothing (radiance recorded as 0)
        def _rec_g(rad, wl, sig, spec):
            self.gauss.append((ex.ite(sig > 0, rad, 0.0) if ex.sym else (rad if sig > 0 else 0.0), wl, sig))
            return spec
        self.mod.add_gaussian_line = _rec_g
        if hasattr(self.mod, 'add_lorentzian_line') or modname == 'stark':
            def _rec_l(rad, wl, w, spec, integ):
                self.lorentz.append((ex.ite(w > 0, rad, 0.0) if ex.sym else (rad if w > 0 else 0.0), wl, w))
                return spec
            self.mod.add_lorentzian_line = _rec_l
        self.species = W.Species(ex, EL, 1)
        if field == 'zero':
            bvec = rs_model.Vector3D(0.0, 0.0, 0.0)
        else:
            bvec = rs_model.Vector3D(ex.real('Bx'), ex.real('By'), ex.real('Bz'))
        self.bvec = bvec
        self.plasma = W.PlasmaStub(ex, [self.species], b_field=type('B', (), {'evaluate': lambda s, x, y, z: bvec})())
        self.line = W.Line(EL, 1, (3, 2))
        self.wl = ex.real('rest_wavelength', pos=True)
        self.rad = ex.real('radiance', nonneg=True)
        self.pt = rs_model.Point3D(ex.real('px'), ex.real('py'), ex.real('pz'))
        self.dir = rs_model.Vector3D(ex.real('dx'), ex.real('dy'), ex.real('dz'))
        self.ex.assume(self.dir.x * self.dir.x + self.dir.y * self.dir.y + self.dir.z * self.dir.z > 0, 'non-zero observation direction')
        self.sp = uni.rs.Spectrum(400.0, 500.0, 2)
        self.dop = uni.load(LS + 'doppler')

    def ts(self):
        return self.species.distribution.effective_temperature(self.pt.x, self.pt.y, self.pt.z)

    def vel(self):
        return self.species.distribution.bulk_velocity(self.pt.x, self.pt.y, self.pt.z)

    def shift(self, wl):
        return self.dop.doppler_shift(wl, self.dir, self.vel())

    def sigma(self):
        return self.dop.thermal_broadening(self.wl, self.ts(), EL.atomic_weight)

    def cos_sqr(self):
        b = self.bvec
        q = b.dot(self.dir.normalise()) / b.get_length()
        return q * q

    def run(self, obj):
        del self.gauss[:]
        del self.lorentz[:]
        obj.add_line(self.rad, self.pt, self.dir, self.sp)
        return list(self.gauss), list(self.lorentz)


def _sum(xs):
    t = 0
    for v in xs:
        t = t + v
    return t


def _same_components(ex, a, b):
    if len(a) != len(b):
        return False
    return ex.all([ex.all([ex.eq(x[0], y[0]), ex.eq(x[1], y[1]), ex.eq(x[2], y[2])]) for x, y in zip(a, b)])


@harness('C02', name='doppler_thermal', universe=_ls_universe, tiers={'quick': [{}], 'thorough': [{}]},
         functions=[LS + 'doppler.doppler_shift', LS + 'doppler.thermal_broadening'], cover=['evaluated'],
         bounds={'values': 'wavelength, temperature, mass, velocity, direction symbolic'}, stubs=['sqrt: root variable'], outside=['floating-point rounding'])
def doppler_thermal(ex, uni):
    dop = uni.load(LS + 'doppler')
    cst = uni.load('cherab.core.utility.constants')     # the library's own CODATA-2018 values (their values are not part of C02)
    c, e, amu = cst.SPEED_OF_LIGHT, cst.ELEMENTARY_CHARGE, cst.ATOMIC_MASS
    wl, t, m = ex.real('wavelength', pos=True), ex.real('temperature', pos=True), ex.real('mass', pos=True)
    d = rs_model.Vector3D(ex.real('dx'), ex.real('dy'), ex.real('dz'))
    v = rs_model.Vector3D(ex.real('vx'), ex.real('vy'), ex.real('vz'))
    ex.assume(d.x * d.x + d.y * d.y + d.z * d.z > 0)
    ex.cover('evaluated')
    dl = d.get_length()
    ex.prove(ex.eq(dop.doppler_shift(wl, d, v) * (c * dl), wl * (c * dl + (v.x * d.x + v.y * d.y + v.z * d.z))), 'doppler_shift==wavelength*(1+v.d/(c|d|))')
    s = dop.thermal_broadening(wl, t, m)
    ex.prove(ex.all([ex.le(0, s), ex.eq(s * s * (m * amu) * c * c, t * e * wl * wl)]), 'thermal_broadening==sqrt(T e/(m amu))*wavelength/c')
    ex.sample({'kernel': 'doppler+thermal'})


TRIPLETS = ['GaussianLine', 'MultipletLineShape', 'ZeemanTriplet', 'ParametrisedZeemanTriplet', 'ZeemanMultiplet', 'StarkBroadenedLine']


@harness('C02', name='components', universe=_ls_universe,
         tiers={'quick': [{'cls': c, 'field': f} for c in TRIPLETS for f in ('any', 'zero')],
                'thorough': [{'cls': c, 'field': f} for c in TRIPLETS for f in ('any', 'zero')]},
         functions=[LS + 'gaussian.GaussianLine', LS + 'multiplet.MultipletLineShape', LS + 'zeeman.ZeemanTriplet', LS + 'zeeman.ParametrisedZeemanTriplet',
                    LS + 'zeeman.ZeemanMultiplet', LS + 'stark.StarkBroadenedLine'],
         cover=['components-recorded'],
         bounds={'values': 'radiance >= 0, species temperature / velocity, electron density / temperature, B vector (any or exactly zero), observation direction, '
                           'rest wavelength, multiplet tables (2 lines), Zeeman structure tables (2 pi, 2+2 sigma), Stark coefficients, triplet parameters symbolic',
                 'polarisation': 'every model is run for "no", "pi" and "sigma" on the same symbolic inputs'},
         stubs=['add_gaussian_line / add_lorentzian_line: recording stubs (their own normalisation: gauss_kernel / lorentz_kernel)',
                'doppler_shift / thermal_broadening: the translated functions (checked by doppler_thermal)', 'pow, exp, log: uninterpreted; sqrt: root variable'],
         outside=['the Olivero FWHM polynomial and the Lorentzian weight polynomial values (only weight_gauss + weight_lorentz = 1 is used)'])
def components(ex, uni, cls, field):
    modname = {'GaussianLine': 'gaussian', 'MultipletLineShape': 'multiplet', 'StarkBroadenedLine': 'stark'}.get(cls, 'zeeman')
    env = _Env(ex, uni, modname, field)
    K = getattr(env.mod, cls)
    args = (env.line, env.wl, env.species, env.plasma, W.AtomicData(ex))
    extra = {}
    if cls == 'MultipletLineShape':
        w1, w2, r1 = ex.real('mwl_1', pos=True), ex.real('mwl_2', pos=True), ex.real('ratio_1', lo=0, hi=1)
        table = [[w1, w2], [r1, 1 - r1]]
        objs = {'no': K(*args, table)}
    elif cls == 'GaussianLine':
        objs = {'no': K(*args)}
    elif cls == 'ParametrisedZeemanTriplet':
        al, be, ga = ex.real('alpha', pos=True), ex.real('beta', nonneg=True), ex.real('gamma')
        objs = {p: K(*args, (al, be, ga), p) for p in ('no', 'pi', 'sigma')}
    elif cls == 'ZeemanMultiplet':
        tabs = {}
        for pol, tag in ((0, 'pi'), (1, 'sp'), (-1, 'sm')):
            a = np.empty((2, 2), dtype=object if ex.sym else float)
            r = ex.real('%s_ratio' % tag, lo=0, hi=1)
            a[0, 0], a[0, 1] = ex.real('%s_wl0' % tag, pos=True), ex.real('%s_wl1' % tag, pos=True)
            a[1, 0], a[1, 1] = r, 1 - r
            tabs[pol] = a
        zs = type('ZS', (), {'evaluate': lambda s, b, pol: tabs[pol]})()
        objs = {p: K(*args, zs, p) for p in ('no', 'pi', 'sigma')}
    elif cls == 'StarkBroadenedLine':
        co = (ex.real('c_ij', pos=True), ex.real('a_ij', pos=True), ex.real('b_ij', pos=True))
        objs = {p: K(*args, co, 'integrator', p) for p in ('no', 'pi', 'sigma')}
    else:
        objs = {p: K(*args, p) for p in ('no', 'pi', 'sigma')}
    ts = env.ts()
    res = {p: env.run(o) for p, o in objs.items()}
    ex.cover('components-recorded')
    g_no, l_no = res['no']
    rad = env.rad
    if cls == 'StarkBroadenedLine':
        ne = env.plasma.electron_distribution.density(env.pt.x, env.pt.y, env.pt.z)
        te = env.plasma.electron_distribution.effective_temperature(env.pt.x, env.pt.y, env.pt.z)
        nowidth = ex.all([ts <= 0, ex.any([ne <= 0, te <= 0])])
        if not g_no and not l_no:
            ex.prove(nowidth, 'Stark:nothing-added-only-for-a-line-without-width')
            return
        ex.prove(ex.not_(nowidth), 'Stark:line-without-width-adds-nothing')
        ex.prove(len(g_no) == len(l_no), 'Stark:every-component-has-a-gaussian-and-a-lorentzian-part')
        comp_no = [(g[0] + l[0], g[1], None) for g, l in zip(g_no, l_no)]
        # every component shares its radiance between the two parts: weight_gauss + weight_lorentz = 1
        for g, l in zip(g_no, l_no):
            ex.prove(ex.eq(g[1], l[1]), 'Stark:both-parts-at-the-same-wavelength')
    else:
        if not g_no:
            ex.prove(ts <= 0, 'nothing-added-only-for-non-positive-species-temperature')
            return
        ex.prove(ts > 0, 'non-positive-species-temperature-adds-nothing')
        comp_no = g_no
        for c in g_no:
            ex.prove(ex.eq(c[2], env.sigma()) if cls != 'ParametrisedZeemanTriplet' else True, 'component-width==thermal-broadening')
    total = _sum([c[0] for c in comp_no])
    # the unpolarised components share the whole radiance
    if field == 'zero' or cls in ('GaussianLine', 'MultipletLineShape'):
        ex.prove(ex.eq(total, rad), cls + ':components-sum-to-the-radiance')
    else:
        c2 = env.cos_sqr()
        s2 = 1.0 - c2
        ex.prove(ex.eq(total, rad), cls + ':components-sum-to-the-radiance', abstract=[c2] + ([co[0]] if False else []))
        w_pi, w_sg = 0.5 * s2 * rad, (0.25 * s2 + 0.5 * c2) * rad
        if cls in ('ZeemanTriplet', 'ParametrisedZeemanTriplet', 'StarkBroadenedLine'):
            ex.prove(len(comp_no) == 3, cls + ':pi+two-sigma-components')
            if len(comp_no) == 3:
                ex.prove(ex.all([ex.eq(comp_no[0][0], w_pi), ex.eq(comp_no[1][0], w_sg), ex.eq(comp_no[2][0], w_sg)]),
                         cls + ':weights-(1/2)sin^2,(1/4)sin^2+(1/2)cos^2-each')
                ex.prove(ex.eq(comp_no[0][1], env.shift(env.wl)), cls + ':pi-component-at-the-doppler-shifted-rest-wavelength')
                if cls == 'ZeemanTriplet':
                    cst = uni.load('cherab.core.utility.constants')
                    bm = env.bvec.get_length()
                    e0 = cst.HC_EV_NM / env.wl
                    ex.prove(ex.all([ex.eq(comp_no[1][1], env.shift(cst.HC_EV_NM / (e0 - cst.BOHR_MAGNETON * bm))),
                                     ex.eq(comp_no[2][1], env.shift(cst.HC_EV_NM / (e0 + cst.BOHR_MAGNETON * bm)))]),
                             cls + ':sigma-components-at-photon-energy-+-mu_B*B')
                if cls == 'ParametrisedZeemanTriplet':
                    bm = env.bvec.get_length()
                    ex.prove(ex.all([ex.eq(comp_no[1][1], env.shift(env.wl + 0.5 * al * bm)), ex.eq(comp_no[2][1], env.shift(env.wl - 0.5 * al * bm))]),
                             cls + ':sigma-components-at+-alpha*B/2')
        else:   # ZeemanMultiplet: 2 pi + 2 sigma+ + 2 sigma-
            ex.prove(len(comp_no) == 6, cls + ':all-structure-components-emitted')
            if len(comp_no) == 6:
                want = [w_pi * tabs[0][1, 0], w_pi * tabs[0][1, 1], w_sg * tabs[1][1, 0], w_sg * tabs[1][1, 1], w_sg * tabs[-1][1, 0], w_sg * tabs[-1][1, 1]]
                ex.prove(ex.all([ex.eq(c[0], w) for c, w in zip(comp_no, want)]), cls + ':components-share-the-radiance-in-the-structure-ratios')
    if cls == 'MultipletLineShape':
        ex.prove(len(g_no) == 2 and bool(ex.all([ex.eq(g_no[0][0], rad * r1), ex.eq(g_no[1][0], rad * (1 - r1)), ex.eq(g_no[0][1], env.shift(w1)),
                                               ex.eq(g_no[1][1], env.shift(w2))])) if not ex.sym else
                 ex.all([len(g_no) == 2] + ([ex.eq(g_no[0][0], rad * r1), ex.eq(g_no[1][0], rad * (1 - r1)), ex.eq(g_no[0][1], env.shift(w1)),
                                             ex.eq(g_no[1][1], env.shift(w2))] if len(g_no) == 2 else [])),
                 cls + ':multiplet-lines-in-the-stated-ratios-at-their-shifted-wavelengths')
    if cls == 'GaussianLine':
        ex.prove(len(g_no) == 1 and True, cls + ':single-component')
        ex.prove(ex.all([ex.eq(g_no[0][0], rad), ex.eq(g_no[0][1], env.shift(env.wl))]), cls + ':whole-radiance-at-the-doppler-shifted-wavelength')
    # pi- and sigma-polarised spectra add up to the unpolarised one, component by component
    if 'pi' in res:
        g_pi, l_pi = res['pi']
        g_sg, l_sg = res['sigma']
        if field == 'zero':
            both_g = [(a[0] + b[0], a[1], a[2]) for a, b in zip(g_pi, g_sg)] if len(g_pi) == len(g_sg) else None
            ex.prove(both_g is not None and _same_components(ex, both_g, g_no), cls + ':pi+sigma==unpolarised(no-field:half-each)')
        else:
            ex.prove(_same_components(ex, g_pi + g_sg, g_no), cls + ':pi-components+sigma-components==unpolarised-components')
            if cls == 'StarkBroadenedLine':
                ex.prove(_same_components(ex, l_pi + l_sg, l_no), cls + ':pi+sigma==unpolarised(lorentzian-parts)')
    ex.sample({'class': cls, 'field': field, 'components': len(comp_no)})


@harness('C02', name='zeeman_structure', universe=_ls_universe, tiers={'quick': [{'n': 2}, {'n': 3}], 'thorough': [{'n': 2}, {'n': 3}, {'n': 5}]},
         functions=['cherab.core.atomic.zeeman.ZeemanStructure.evaluate'], cover=['evaluated'],
         bounds={'components': 'n per polarisation, concrete per job; wavelengths and ratios symbolic functions of B'}, stubs=[], outside=[])
def zeeman_structure(ex, uni, n):
    mod = uni.load('cherab.core.atomic.zeeman')
    b = ex.real('B', nonneg=True)

    def comps(tag):
        return [(rs_model.PythonFunction1D(lambda x, k=k: ex.uf('%s_wl%d' % (tag, k), x)), rs_model.PythonFunction1D(lambda x, k=k: ex.uf('%s_r%d' % (tag, k), x, nonneg=True)))
                for k in range(n)]
    zs = mod.ZeemanStructure(comps('pi'), comps('sp'), comps('sm'))
    ex.cover('evaluated')
    for pol, tag in ((0, 'pi'), (1, 'sp'), (-1, 'sm')):
        out = zs.evaluate(b, pol)
        ratios = [ex.uf('%s_r%d' % (tag, k), b, nonneg=True) for k in range(n)]
        tot = _sum(ratios)
        ex.prove(tuple(out.shape) == (2, n), 'structure-shape')
        for k in range(n):
            ex.prove(ex.eq(out[0, k], ex.uf('%s_wl%d' % (tag, k), b)), 'component-wavelengths-evaluated-at-B')
            ex.prove(ex.implies(tot > 0, ex.eq(out[1, k] * tot, ratios[k])), 'ratios-renormalised-to-sum-1')
        ex.prove(ex.implies(tot > 0, ex.eq(_sum([out[1, k] for k in range(n)]), 1)), 'ratios-sum-to-one')
    try:
        zs.evaluate(-1.0, 0)
        ok = False
    except ValueError:
        ok = True
    ex.prove(ok, 'negative-field-rejected')
    ex.sample({'components': n})


@harness('C02', name='mse_multiplet', universe=_ls_universe, tiers={'quick': [{}], 'thorough': [{}]},
         functions=[LS + 'beam.mse.BeamEmissionMultiplet.add_line'], cover=['components-recorded'],
         bounds={'values': 'radiance, beam energy / temperature, B vector, observation direction, n_e, T_e and the four ratio functions symbolic; beam along +z'},
         stubs=['add_gaussian_line: recording stub', 'ratio functions: positive uninterpreted'], outside=['the Stark splitting coefficient value'])
def mse_multiplet(ex, uni):
    mod = uni.load(LS + 'beam.mse')
    rec = []
    mod.add_gaussian_line = lambda rad, wl, sig, spec: (rec.append((rad, wl, sig)), spec)[1]
    bvec = rs_model.Vector3D(ex.real('Bx'), ex.real('By'), ex.real('Bz'))
    plasma = W.PlasmaStub(ex, [], b_field=type('B', (), {'evaluate': lambda s, x, y, z: bvec})())
    en, tb = ex.real('beam_energy', pos=True), ex.real('beam_temperature', pos=True)
    beam = type('Beam', (), {'get_plasma': lambda s: plasma, 'get_energy': lambda s: en, 'get_element': lambda s: EL, 'get_temperature': lambda s: tb})()
    F2 = lambda name: rs_model.PythonFunction2D(lambda a, b: ex.uf(name, a, b, pos=True))
    F1 = lambda name: rs_model.PythonFunction1D(lambda a: ex.uf(name, a, pos=True))
    wl = ex.real('rest_wavelength', pos=True)
    m = mod.BeamEmissionMultiplet(W.Line(EL, 0, (3, 2)), wl, beam, None, F2('sigma_to_pi'), F1('sigma1_to_sigma0'), F1('pi2_to_pi3'), F1('pi4_to_pi3'))
    rad = ex.real('radiance', nonneg=True)
    pt = rs_model.Point3D(ex.real('px'), ex.real('py'), ex.real('pz'))
    od = rs_model.Vector3D(ex.real('ox'), ex.real('oy'), ex.real('oz'))
    ex.assume(od.x * od.x + od.y * od.y + od.z * od.z > 0)
    sp = uni.rs.Spectrum(400.0, 500.0, 2)
    m.add_line(rad, pt, pt, rs_model.Vector3D(0.0, 0.0, 1.0), od, sp)
    ne = plasma.electron_distribution.density(pt.x, pt.y, pt.z)
    te = plasma.electron_distribution.effective_temperature(pt.x, pt.y, pt.z)
    if not rec:
        ex.prove(ex.any([ne <= 0, te <= 0]), 'nothing-added-only-for-non-positive-electron-density-or-temperature')
        return
    ex.cover('components-recorded')
    ex.prove(len(rec) == 9, 'nine-Stark-components')
    s2p = ex.uf('sigma_to_pi', ne, en, pos=True)
    s10, p23, p43 = ex.uf('sigma1_to_sigma0', ne, pos=True), ex.uf('pi2_to_pi3', ne, pos=True), ex.uf('pi4_to_pi3', ne, pos=True)
    tot = _sum([c[0] for c in rec])
    ex.prove(ex.eq(tot, rad), 'MSE:components-sum-to-the-radiance', abstract=[s2p, s10, p23, p43])
    sig, pi = _sum([c[0] for c in rec[:3]]), _sum([c[0] for c in rec[3:]])
    ex.prove(ex.eq(sig * 1, s2p * pi), 'MSE:sigma-to-pi-intensity-ratio', abstract=[s2p, s10, p23, p43])
    ex.prove(ex.all([ex.eq(rec[1][0], rec[2][0]), ex.eq(rec[3][0], rec[4][0]), ex.eq(rec[5][0], rec[6][0]), ex.eq(rec[7][0], rec[8][0])]), 'MSE:symmetric-pairs-equal')
    ex.prove(ex.all([ex.eq(rec[1][0] * 2, s10 * rec[0][0]), ex.eq(rec[3][0], p23 * rec[5][0]), ex.eq(rec[7][0], p43 * rec[5][0])]), 'MSE:component-ratios-as-supplied',
             abstract=[s2p, s10, p23, p43])
    c0 = rec[0][1]
    split = rec[1][1] - c0
    ex.prove(ex.all([ex.eq(rec[2][1], c0 - split), ex.eq(rec[3][1], c0 + 2 * split), ex.eq(rec[4][1], c0 - 2 * split), ex.eq(rec[5][1], c0 + 3 * split),
                     ex.eq(rec[6][1], c0 - 3 * split), ex.eq(rec[7][1], c0 + 4 * split), ex.eq(rec[8][1], c0 - 4 * split), ex.le(0, split)]),
             'MSE:components-at-0,+-1,+-2,+-3,+-4-Stark-splittings')
    ex.sample({'components': len(rec)})


# ================================================================================================ Lorentzian (Stark) kernel
class _RecIntegrator:
    """Integrator1D stand-in: evaluate(a, b) is the uninterpreted integral INT(a, b) of whatever function it was given"""
    def __init__(self, ex):
        self.ex = ex
        self.function = None
        self.calls = []

    def evaluate(self, a, b):
        self.calls.append((a, b))
        return self.ex.uf('INT', a, b)


@harness('C02', name='lorentz_kernel', universe=_ls_universe, tiers={'quick': [{'bins': b} for b in (1, 2, 3)], 'thorough': [{'bins': b} for b in (1, 2, 3, 4, 5, 6)]},
         functions=[LS + 'stark.add_lorentzian_line', LS + 'stark.StarkFunction'], cover=['line-overlaps-window', 'line-outside-window', 'no-width'],
         bounds={'bins': 'concrete per job', 'values': 'radiance, wavelength, FWHM, window (min, delta), previous samples symbolic'},
         stubs=['Integrator1D.evaluate(a, b): uninterpreted INT(a, b) of the StarkFunction it was handed (quadrature error is outside the claim)',
                'floor/ceil: integer with the defining inequalities', 'x**2.5, x**1.5: x*x*sqrt(x), x*sqrt(x) with sqrt a root variable'],
         outside=['quadrature accuracy of the integrator', 'the value of hyp2f1 behind STARK_NORM_COEFFICIENT is compared concretely (quadrature of the unit profile), not symbolically'])
def lorentz_kernel(ex, uni, bins):
    mod = uni.load(LS + 'stark')
    sp, pre = _sym_spectrum(ex, uni, bins)
    rad, wl, w = ex.real('rad', nonneg=True), ex.real('wl', pos=True), ex.real('fwhm')
    integ = _RecIntegrator(ex)
    mod.add_lorentzian_line(rad, wl, w, sp, integ)
    mn, dl = sp.min_wavelength, sp.delta_wavelength
    added = [sp.samples[i] - pre[i] for i in range(bins)]
    if not integ.calls:
        if integ.function is None:
            ex.cover('no-width')
            ex.prove(w <= 0, 'nothing-integrated-only-for-non-positive-width')
        else:
            ex.cover('line-outside-window')
            ex.prove(ex.any([mn + bins * dl <= wl - 50.0 * w, mn >= wl + 50.0 * w, w <= 0]), 'skipped-only-when-the-truncated-profile-misses-the-window')
        ex.prove(ex.all([ex.eq(a, 0) for a in added]), 'untouched-spectrum-when-nothing-integrated')
        return
    ex.cover('line-overlaps-window')
    ex.prove(w > 0, 'integrated-only-for-positive-width')
    f = integ.function
    ex.prove(isinstance(f, mod.StarkFunction), 'integrand-is-the-Stark-profile')
    ex.prove(ex.all([ex.eq(f._x0, wl), ex.eq(f._a, sym_half_pow(0.5 * w)), ex.eq(f._norm * float(mod.StarkFunction.STARK_NORM_COEFFICIENT), (0.5 * w) * MATH.sqrt(0.5 * w))]),
             'profile-centred-on-the-line-with-the-documented-half-width-and-norm')
    touched = {}
    for (a, b) in integ.calls:
        hit = None
        for i in range(bins):
            if ex.all([ex.eq(a, mn + i * dl), ex.eq(b, mn + dl * (i + 1))]):
                hit = i
                break
        ex.prove(hit is not None, 'every-integration-interval-is-one-spectral-bin')
        if hit is None:
            return
        ex.prove(hit not in touched, 'each-bin-integrated-once')
        touched[hit] = (a, b)
    for i in range(bins):
        lo, hi = mn + i * dl, mn + dl * (i + 1)
        if i in touched:
            ex.prove(ex.eq(added[i] * dl, rad * ex.uf('INT', touched[i][0], touched[i][1])), 'bin-gets-radiance*integral/bin-width')
        else:
            ex.prove(ex.eq(added[i], 0), 'unvisited-bin-untouched')
            ex.prove(ex.any([hi <= wl - 50.0 * w, lo >= wl + 50.0 * w]), 'unvisited-bin-lies-outside-the-truncated-profile')
    ex.sample({'bins': bins, 'bins_integrated': len(touched)})


def sym_half_pow(h):
    return h * h * MATH.sqrt(h)


@harness('C02', name='stark_function', universe=_ls_universe, tiers={'quick': [{}], 'thorough': [{}]},
         functions=[LS + 'stark.StarkFunction.evaluate', LS + 'stark.StarkFunction.__init__'], cover=['evaluated'],
         bounds={'values': 'centre, FWHM > 0, offset t symbolic'}, stubs=['sqrt: root variable'],
         outside=['integral calculus: the solver shows the profile of FWHM w is the unit profile rescaled (f_w(x0 + (w/2) t) * (w/2) == f_2(t)); that the unit profile integrates '
                  'to 1 over +-100 half-widths is a statement about one constant and is compared concretely by quadrature'])
def stark_function(ex, uni):
    mod = uni.load(LS + 'stark')
    x0, w, t = ex.real('x0', pos=True), ex.real('fwhm', pos=True), ex.real('t', nonneg=True)
    f = mod.StarkFunction(x0, w)
    ex.cover('evaluated')
    h = 0.5 * w
    peak = f.evaluate(x0)
    ex.prove(ex.all([ex.eq(f.evaluate(x0 + h), 0.5 * peak), ex.eq(f.evaluate(x0 - h), 0.5 * peak)]), 'half-maximum-at+-FWHM/2')
    u = ex.real('u', nonneg=True)
    ex.prove(ex.eq(f.evaluate(x0 + u), f.evaluate(x0 - u)), 'symmetric-about-the-centre')
    ex.prove(ex.all([f.evaluate(x0 + u) > 0, ex.le(f.evaluate(x0 + u), peak)]), 'positive-and-peaked-at-the-centre')
    # scaling: with the unit profile g(t) = 1 / (C (t^2.5 + 1)),  f_w(x0 + h t) * h == g(t)   [=> the integral over +-50 w is that of g over +-100]
    C = float(mod.StarkFunction.STARK_NORM_COEFFICIENT)
    st, sh = MATH.sqrt(t), MATH.sqrt(h)
    ex.lemma(ex.eq(MATH.sqrt(h * t), sh * st), 'sqrt(h t)==sqrt(h) sqrt(t)')
    g = 1.0 / (C * (t * t * st + 1.0))
    ex.prove(ex.eq(f.evaluate(x0 + h * t) * h, g), 'profile-of-any-width-is-the-unit-profile-rescaled')
    # the one constant: unit profile integrates to 1 over [-100, 100]  (concrete, scipy quadrature of the real compiled StarkFunction)
    from scipy.integrate import quad
    from cherab.core.model.lineshape.stark import StarkFunction as RealSF
    rf = RealSF(10.0, 2.0)
    val = 2 * (quad(rf, 10.0, 11.0, epsabs=1e-13, epsrel=1e-13)[0] + quad(rf, 11.0, 110.0, epsabs=1e-13, epsrel=1e-13)[0])
    ex.prove(abs(val - 1.0) < 1e-9, 'unit-profile-integrates-to-1-over-the-truncation-range(concrete)', info={'integral': val})
    ex.sample({'unit_integral': val})

"""C02 — line shapes are normalised."""
import math
import random

from symx.harness import harness
from symx import core
from symx.core import MATH

GAUSS = 'cherab.core.model.lineshape.gaussian'


def _sym_spectrum(ex, uni, bins, prefix=''):
    # (min, delta) are the primitives, max = min + bins*delta: every window with max > min is of this form
    mn = ex.real(prefix + 'min_wl', pos=True)
    dl = ex.real(prefix + 'delta_wl', pos=True)
    mx = mn + bins * dl
    sp = uni.rs.Spectrum(mn, mx, bins)
    sp.delta_wavelength = dl   # == (max - min) / bins, stated in the simpler form for the solver
    pre = []
    for i in range(bins):
        v = ex.real('%spre_%d' % (prefix, i))
        sp.samples[i] = v
        pre.append(v)
    return sp, pre


def _validate_gauss(uni, bins):
    """translated add_gaussian_line vs the compiled one on concrete inputs"""
    from raysect.optical import Spectrum
    from cherab.core.model.lineshape import add_gaussian_line as real
    tr = uni.load(GAUSS).add_gaussian_line
    rnd = random.Random(bins)
    n = 0
    for _ in range(20):
        mn = rnd.uniform(300, 600)
        mx = mn + rnd.uniform(0.5, 50)
        wl = rnd.uniform(mn - 5, mx + 5)
        sg = rnd.choice([rnd.uniform(0.001, 3.0), -1.0, 0.0])
        rad = rnd.uniform(0, 10)
        s1 = Spectrum(mn, mx, bins)
        real(rad, wl, sg, s1)
        s2 = uni.rs.Spectrum(mn, mx, bins)
        tr(rad, wl, sg, s2)
        for i in range(bins):
            a, b = s1.samples[i], float(s2.samples[i])
            if abs(a - b) > 1e-9 * max(abs(a), abs(b)) + 1e-300:
                raise core.HarnessError('translator validation failed: add_gaussian_line bin %d: %r vs %r' % (i, a, b))
        n += 1
    return n


def _replay_gauss(model, label, bins):
    """counterexample on the compiled add_gaussian_line"""
    from raysect.optical import Spectrum
    from cherab.core.model.lineshape import add_gaussian_line as real
    g = lambda k, d=0.0: float(core.model_float(model.get(k, d)))
    mn, wl, sg, rad = g('min_wl'), g('wl'), g('sigma'), g('rad')
    mx = mn + bins * g('delta_wl')
    sp = Spectrum(mn, mx, bins)
    pre = [g('pre_%d' % i) for i in range(bins)]
    for i in range(bins):
        sp.samples[i] = pre[i]
    real(rad, wl, sg, sp)
    delta = (mx - mn) / bins
    bad = []
    tot = 0.0
    for i in range(bins):
        added = sp.samples[i] - pre[i]
        a, b = mn + i * delta, mn + (i + 1) * delta
        exp_ = 0.0
        if sg > 0:
            exp_ = rad * 0.5 * (math.erf((b - wl) / (math.sqrt(2) * sg)) - math.erf((a - wl) / (math.sqrt(2) * sg))) / delta
        overlap = sg > 0 and b > wl - 10 * sg and a < wl + 10 * sg
        tol = 1e-7 * max(abs(exp_), abs(pre[i]), 1e-300)
        if overlap and abs(added - exp_) > tol:
            bad.append((i, added, exp_))
        if not overlap and abs(added) > tol and abs(added - exp_) > tol:
            bad.append((i, added, exp_))
    return {'reproduced': bool(bad), 'bins': bad}


@harness('C02', name='gauss_kernel',
         tiers={'quick': [{'bins': b} for b in (1, 2, 3, 4)], 'thorough': [{'bins': b} for b in (1, 2, 3, 4, 5, 6, 7, 8)]},
         functions=[GAUSS + '.add_gaussian_line'], validate=_validate_gauss, replay_real=_replay_gauss,
         cover=['sigma<=0', 'line-below-window', 'line-above-window', 'bins-touched'],
         bounds={'bins': 'concrete per job', 'values': 'all reals (radiance >= 0, min_wl > 0, max > min)'},
         stubs=['raysect Spectrum (model: min/max/bins/delta/samples)', 'erf: uninterpreted + monotone/odd/bounds/tail lemmas'],
         outside=['value of erf beyond the lemma schema', 'floating-point rounding'])
def gauss_kernel(ex, uni, bins):
    g = uni.load(GAUSS)
    sp, pre = _sym_spectrum(ex, uni, bins)
    rad = ex.real('rad', nonneg=True)
    wl = ex.real('wl')
    sigma = ex.real('sigma')
    g.add_gaussian_line(rad, wl, sigma, sp)
    delta = sp.delta_wavelength
    added = [sp.samples[i] - pre[i] for i in range(bins)]
    if sigma <= 0:
        ex.cover('sigma<=0')
        ex.prove(ex.all([ex.eq(a, 0) for a in added]), 'zero-width-adds-nothing')
        return
    cl = wl - 10 * sigma
    cu = wl + 10 * sigma
    if sp.max_wavelength < cl:
        ex.cover('line-above-window')
    if sp.min_wavelength > cu:
        ex.cover('line-below-window')
    k = 1 / (math.sqrt(2.0) * sigma)
    edges = [sp.min_wavelength + delta * j for j in range(bins + 1)]
    z = [(e - wl) * k for e in edges]
    erfs = [MATH.erf(t) for t in z]
    conds = []
    kept = 0.0
    for i in range(bins):
        a, b = edges[i], edges[i + 1]
        frac = 0.5 * (erfs[i + 1] - erfs[i])
        exact = ex.eq(added[i] * delta, rad * frac)
        overlap = ex.all([b > cl, a < cu])
        conds.append(ex.implies(overlap, exact))
        conds.append(ex.implies(ex.not_(overlap), ex.any([exact, ex.eq(added[i], 0)])))
        kept = kept + ex.ite(overlap, frac, 0.0)
    ex.cover('bins-touched')
    ex.prove(ex.all(conds), 'bin-average-of-profile')
    # the fraction of the profile in the bins that must be filled: ordering hints proved first (cut rule)
    ex.lemma(k > 0, 'k>0')
    for j in range(bins + 1):
        ex.lemma(ex.all([ex.implies(edges[j] <= cl, z[j] <= -5), ex.implies(edges[j] >= cu, z[j] >= 5)]), 'tail-edge')
        if j:
            ex.lemma(z[j - 1] < z[j], 'z-ordered')
    ex.prove(ex.all([ex.le(0, kept), ex.le(kept, 1)]), 'kept-fraction-within-[0,1]')
    spans = ex.all([sp.min_wavelength <= cl, cu <= sp.max_wavelength])
    ex.prove(ex.implies(spans, ex.le(1 - 4e-12, kept)), 'window-spans-line=>full-radiance')
    ex.sample({'bins': bins, 'obligations': ['bin-average-of-profile', 'kept-fraction-within-[0,1]', 'window-spans-line=>full-radiance']})

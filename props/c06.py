"""C06 — rate repository: last write wins per key, other keys untouched, no stray files (repository/*.py run from source on an
in-memory store; keys are symbolic strings / integers, locations are z3 string terms, equality is decided by the solver)."""
import types
import z3

from symx.harness import harness
from symx import core, symstr
from symx.core import B, I
from symx.symstr import SInt, SAtom, Tagged, Env, lift, LOWER
from symx.universe import Universe

R = 'cherab.openadas.repository.'
MODS = ['atomic', 'radiated_power', 'pec', 'wavelength', 'beam.cx', 'beam.stopping', 'beam.population', 'beam.emission']


class Elem:
    def __init__(self, symbol, z):
        self.symbol, self.atomic_number, self.name = symbol, z, 'el'

    def __hash__(self):
        return hash(self.symbol)

    def __eq__(self, o):
        return isinstance(o, Elem) and self.symbol == o.symbol


class Iso(Elem):
    """an isotope: a species with its own symbol that also knows its parent element (nothing in the repository may treat it differently
    from any other species: keys are compared by symbol)"""
    def __init__(self, symbol, z, element):
        Elem.__init__(self, symbol, z)
        self.element = element
        self.mass_number = 2


def _universe():
    return Universe(stubs={'Element': Elem, 'Isotope': Iso})


ALNUM = z3.Plus(z3.Union(z3.Range('a', 'z'), z3.Range('0', '9')))
LEVEL = z3.Plus(z3.Union(z3.Range('a', 'z'), z3.Range('0', '9'), z3.Re(' '), z3.Re('.')))


class World:
    """symbolic key material + environment, rebuilt for every explored path (concrete strings / ints in replay mode)"""
    def __init__(self, ex, uni):
        self.ex, self.uni = ex, uni
        self.sym = ex.sym
        ex.str_mode = True
        self.env = Env()
        self.mods = {}
        for m in MODS:
            mod = uni.load(R + m)
            mod.os, mod.json, mod.open, mod.Element = self.env.os, self.env.json, self.env.open, Elem
            if hasattr(mod, 'np'):
                mod.np = self.env.np
            self.mods[m] = mod
        if self.sym:
            t = z3.String('root')
            ex.names['root'] = t
            self.root = symstr.sent(t)
            self.root_t = t
        else:
            self.root = '/r' + ex.string('root').replace('\x00', '')
            self.root_t = None
        self.n = 0

    def atom_str(self, name, kind='sym', variant_of=None):
        """string atom in canonical (lower-case) spelling, or - variant_of - another spelling of an existing atom"""
        if not self.sym:
            if variant_of is not None:
                return variant_of.upper()
            v = self.ex.string(name)
            return v if v else 'x'
        t = z3.String(name)
        self.ex.names[name] = t
        if variant_of is not None:
            self.ex._add(LOWER(t) == variant_of.t)
            return SAtom(t)
        self.ex._add(LOWER(t) == t)
        self.ex._add(z3.InRe(t, ALNUM if kind == 'sym' else LEVEL))
        return SAtom(t)

    def element(self, name, variant_of=None):
        if variant_of is None and name in getattr(self, 'iso_names', ()) and bool(self.ex.bool(name + '_is_isotope')):
            parent = Elem(self.atom_str(name + '_parent', 'sym'), 200)
            iso = Iso(self.atom_str(name, 'sym'), 200, parent)
            self.differ(parent, iso)
            return iso
        return Elem(self.atom_str(name, 'sym', variant_of.symbol if variant_of is not None else None), 200)

    def charge(self, name):
        if not self.sym:
            return int(self.ex.int(name, 0, 150))
        return SInt(self.ex.int(name, 0, 150))

    def level(self, name, as_int, variant_of=None):
        return self.charge(name) if as_int else self.atom_str(name, 'level', variant_of)

    def const(self, v):
        return SInt(I(z3.IntVal(v))) if self.sym else v

    def tagged(self, shape):
        self.n += 1
        return Tagged('v%d' % self.n, shape)

    def adf11(self):
        return {'te': self.tagged((2,)), 'ne': self.tagged((3,)), 'rates': self.tagged((3, 2))}

    def pec(self):
        return {'te': self.tagged((2,)), 'ne': self.tagged((3,)), 'rate': self.tagged((3, 2))}

    def pec3(self):
        return {'te': self.tagged((2,)), 'ne': self.tagged((3,)), 'td': self.tagged((2,)), 'rate': self.tagged((3, 2, 2))}

    def beam(self):
        self.n += 1
        return {'e': self.tagged((2,)), 'n': self.tagged((3,)), 't': self.tagged((4,)), 'sen': self.tagged((2, 3)), 'st': self.tagged((4,)),
                'eref': 1.0 + self.n, 'nref': 2.0 + self.n, 'tref': 3.0 + self.n, 'sref': 4.0 + self.n}

    def bcx(self):
        self.n += 1
        d = {'qref': 0.5 + self.n}
        for k in ('eb', 'ti', 'ni', 'z', 'b'):
            d[k] = self.tagged((2,))
            d['q' + k] = self.tagged((2,))
        return d

    def differ(self, a, b):
        """assume two key components differ (by their canonical form)"""
        if self.sym:
            self.ex._add(z3.Not(keys_equal([a], [b])))
        else:
            self.ex.assume(_canon(a) != _canon(b), 'differing component')

    def prefix_ok(self):
        if self.sym:
            conds = [z3.PrefixOf(z3.Concat(self.root_t, z3.StringVal('/')), lift(p)) for p in self.env.fs.writes]
            return B(z3.And(*conds)) if conds else True
        return all(str.__str__(p).startswith(self.root + '/') for p in self.env.fs.writes)

    def same_key(self, k1, k2):
        if self.sym:
            return B(keys_equal(k1, k2))
        return [_canon(c) for c in k1] == [_canon(c) for c in k2]


def _canon(c):
    if isinstance(c, Elem):
        return str(c.symbol).lower()
    if isinstance(c, tuple):
        return tuple(str(x).lower() for x in c)
    return c


def _cmp_fields(a, b, fields):
    return all(a[f] == b[f] for f in fields)


# family table: name -> (module, add function, get function, key kinds, value maker, fields compared between written and read)
# key kinds: E element, C charge, T transition (2 levels), M metastable
FAM = {
    'ionisation': ('atomic', 'add_ionisation_rate', 'get_ionisation_rate', 'EC', 'adf11'),
    'recombination': ('atomic', 'add_recombination_rate', 'get_recombination_rate', 'EC', 'adf11'),
    'thermal_cx': ('atomic', 'add_thermal_cx_rate', 'get_thermal_cx_rate', 'ECEC', 'adf11'),
    'line_power': ('radiated_power', 'add_line_power_rate', 'get_line_radiated_power_rate', 'EC', 'adf11'),
    'continuum_power': ('radiated_power', 'add_continuum_power_rate', 'get_continuum_radiated_power_rate', 'EC', 'adf11'),
    'cx_power': ('radiated_power', 'add_cx_power_rate', 'get_cx_radiated_power_rate', 'EC', 'adf11'),
    'pec_excitation': ('pec', 'add_pec_excitation_rate', 'get_pec_excitation_rate', 'ECT', 'pec'),
    'pec_recombination': ('pec', 'add_pec_recombination_rate', 'get_pec_recombination_rate', 'ECT', 'pec'),
    'pec_thermal_cx': ('pec', 'add_pec_thermal_cx_rate', 'get_pec_thermal_cx_rate', 'ECECT', 'pec3'),
    'wavelength': ('wavelength', 'add_wavelength', 'get_wavelength', 'ECT', 'wl'),
    'beam_cx': ('beam.cx', 'add_beam_cx_rate', 'get_beam_cx_rates', 'EMECT', 'bcx'),
    'beam_stopping': ('beam.stopping', 'add_beam_stopping_rate', 'get_beam_stopping_rate', 'EEC', 'beam'),
    'beam_population': ('beam.population', 'add_beam_population_rate', 'get_beam_population_rate', 'EMEC', 'beam'),
    'beam_emission': ('beam.emission', 'add_beam_emission_rate', 'get_beam_emission_rate', 'EECT', 'beam'),
}
FAMILIES = list(FAM)


def make_key(w, fam, tag, int_levels=False):
    kinds = FAM[fam][3]
    key = []
    for j, k in enumerate(kinds):
        nm = '%s_%s%d' % (tag, k, j)
        if k == 'E':
            key.append(w.element(nm))
        elif k in ('C', 'M'):
            key.append(w.charge(nm))
        else:
            key.append((w.level(nm + 'u', int_levels), w.level(nm + 'l', int_levels)))
    return key


def comp_term(c):
    """canonical term of a key component (what the documentation says keys are compared by)"""
    if isinstance(c, Elem):
        return [symstr._lower_term(c.symbol.t)]
    if isinstance(c, SInt):
        return [c.i.t]
    if isinstance(c, tuple):
        out = []
        for lv in c:
            out.append(z3.IntToStr(lv.i.t) if isinstance(lv, SInt) else symstr._lower_term(lv.t))
        return out
    raise TypeError(c)


def keys_equal(k1, k2):
    conds = []
    for a, b in zip(k1, k2):
        for x, y in zip(comp_term(a), comp_term(b)):
            conds.append(x == y)
    return z3.And(*conds)


def make_value(w, fam):
    kind = FAM[fam][4]
    if kind == 'wl':
        w.n += 1
        return 400.0 + w.n
    return getattr(w, kind)()


def do_add(w, fam, key, value, root):
    mod, add = w.mods[FAM[fam][0]], FAM[fam][1]
    fn = getattr(mod, add)
    if fam == 'thermal_cx':      # add_thermal_cx_rate(donor, donor_charge, receiver, {receiver_charge: rate})
        return fn(key[0], key[1], key[2], {key[3]: value}, root)
    if fam == 'beam_cx':         # (donor_ion, donor_metastable, receiver_ion, receiver_charge, transition, rate)
        return fn(key[0], key[1], key[2], key[3], key[4], value, root)
    return fn(*key, value, root)


def do_get(w, fam, key, root):
    mod, get = w.mods[FAM[fam][0]], FAM[fam][2]
    fn = getattr(mod, get)
    if fam == 'beam_cx':         # get_beam_cx_rates(donor_ion, receiver_ion, receiver_charge, transition) -> [(metastable, rate)]
        return fn(key[0], key[2], key[3], key[4], root)
    return fn(*key, root)


def _same_int(a, b):
    if isinstance(a, SInt) and isinstance(b, SInt):
        return a.i.t.eq(b.i.t) or bool(a.i == b.i)
    return a == b


def same_value(fam, written, read, key=None):
    kind = FAM[fam][4]
    if kind == 'wl':
        return read == written
    if kind == 'adf11':
        return read['te'] == written['te'] and read['ne'] == written['ne'] and read['rate'] == written['rates']
    if kind in ('pec', 'pec3'):
        return all(read[f] == written[f] for f in written)
    if kind == 'beam':
        return all(read[f] == written[f] for f in written)
    if kind == 'bcx':
        # list of (metastable, rate): the written metastable must be present with the written rate
        for m, rate in read:
            if key is not None and not _same_int(m, key[1]):
                continue
            if all(rate[f] == written[f] for f in written):
                return True
        return False
    raise KeyError(kind)


@harness('C06', name='round_trip', universe=_universe, timeout_ms=60000,
         tiers={'quick': [{'fam': f, 'ints': i} for f in FAMILIES for i in (False, True)],
                'thorough': [{'fam': f, 'ints': i} for f in FAMILIES for i in (False, True)]},
         functions=[R + m for m in MODS] + ['cherab.core.utility.recursivedict.RecursiveDict', R + 'utility.encode_transition'],
         cover=['written', 'read-back', 'other-key-miss'],
         bounds={'keys': 'element symbols, transition levels: symbolic strings (symbols alphanumeric after lower-casing, levels without '
                         '"-" and ">"); charges / metastables: symbolic integers 0..150; repository path: arbitrary symbolic string',
                 'histories': 'add(k1) ; add(k1 in another letter case) ; get(k1) and add(k1) ; add(k2) ; get(k1), get(k2) with k2 differing in one component'},
         stubs=['open/json/os: in-memory store whose file and key lookups are decided by the solver on the location terms',
                'numpy arrays: opaque tagged values (bit-for-bit identity = same tag)'],
         outside=['JSON float round-trip (CPython repr guarantee)', 'the real file system'])
def round_trip(ex, uni, fam, ints):
    w = World(ex, uni)
    w.iso_names = {'a_E0'}      # the first species of the key may be an isotope (own symbol, parent element with another symbol)
    root = w.root
    k1 = make_key(w, fam, 'a', ints)
    v1 = make_value(w, fam)
    do_add(w, fam, k1, v1, root)
    ex.cover('written')
    ex.prove(len(w.env.fs.writes) >= 1, 'add-writes-a-file')
    ex.prove(w.prefix_ok(), 'every-written-file-lies-under-the-repository-path')
    # read back with the same key
    try:
        got = do_get(w, fam, k1, root)
        ok = same_value(fam, v1, got)
    except RuntimeError:
        ok = False
    ex.cover('read-back')
    ex.prove(ok, 'get-returns-what-add-wrote')
    # last write wins: same key in another spelling (fresh atoms constrained to the same lower-case form)
    k1b = []
    for j, c in enumerate(k1):
        if isinstance(c, Elem):
            k1b.append(w.element('b_E%d' % j, variant_of=c))
        elif isinstance(c, tuple) and not ints:
            k1b.append(tuple(w.level('b_T%d_%d' % (j, q), False, variant_of=l0) for q, l0 in enumerate(c)))
        else:
            k1b.append(c)
    v2 = make_value(w, fam)
    do_add(w, fam, k1b, v2, root)
    try:
        got = do_get(w, fam, k1, root)
        ok = same_value(fam, v2, got)
    except RuntimeError:
        ok = False
    ex.prove(ok, 'last-write-wins(key-compared-by-lower-case-form)')
    ex.prove(w.prefix_ok(), 'every-written-file-lies-under-the-repository-path')
    # a key differing in one component: never written -> RuntimeError; writing it leaves k1 untouched
    j = int(ex.int('diff_component', 0, len(k1) - 1))
    k2 = list(k1)
    c = k1[j]
    if isinstance(c, Elem):
        k2[j] = w.element('c_E')
    elif isinstance(c, tuple):
        k2[j] = (w.level('c_Tu', ints), c[1])
    else:
        k2[j] = w.charge('c_C')
    w.differ(c, k2[j])
    try:
        do_get(w, fam, k2, root)
        miss = False
    except RuntimeError:
        miss = True
    ex.cover('other-key-miss')
    if fam == 'beam_cx' and j == 1:
        # the donor metastable is not part of the read key: all metastables written for the transition are returned together
        v3 = make_value(w, fam)
        do_add(w, fam, k2, v3, root)
        try:
            got = do_get(w, fam, k1, root)
            ok1 = same_value(fam, v2, got, k1)
            ok2 = same_value(fam, v3, got, k2)
        except RuntimeError:
            ok1 = ok2 = False
        ex.prove(ok1, 'writing-another-metastable-keeps-the-first-one')
        ex.prove(ok2, 'the-other-metastable-is-returned-with-its-own-value')
    else:
        ex.prove(miss, 'key-never-written-raises-RuntimeError')
        v3 = make_value(w, fam)
        do_add(w, fam, k2, v3, root)
        try:
            ok1 = same_value(fam, v2, do_get(w, fam, k1, root))
            ok2 = same_value(fam, v3, do_get(w, fam, k2, root))
        except RuntimeError:
            ok1 = ok2 = False
        ex.prove(ok1, 'writing-another-key-leaves-this-key-untouched')
        ex.prove(ok2, 'the-other-key-reads-back-its-own-value')
    ex.sample({'family': fam, 'integer_levels': ints, 'differing_component': j, 'files': len(w.env.fs.files)})


@harness('C06', name='cross_family', universe=_universe,
         tiers={'quick': [{'fam': f} for f in FAMILIES], 'thorough': [{'fam': f} for f in FAMILIES]},
         functions=[R + m for m in MODS], cover=['checked-against-all-families'],
         bounds={'pairs': 'write through one family, read through each of the other 13 with keys built from the same symbols / numbers / '
                          'transitions wherever the signatures allow'},
         stubs=['as round_trip'], outside=['as round_trip'])
def cross_family(ex, uni, fam):
    w = World(ex, uni)
    root = w.root
    pool = {'E': [w.element('e0'), w.element('e1')], 'C': [w.charge('c0'), w.charge('c1')],
            'T': [(w.level('tu', False), w.level('tl', False))]}
    pool['M'] = pool['C']

    def key_for(f):
        cnt = {'E': 0, 'C': 0, 'T': 0}
        key = []
        for k in FAM[f][3]:
            kk = 'C' if k == 'M' else k
            lst = pool[kk]
            key.append(lst[min(cnt[kk], len(lst) - 1)])
            cnt[kk] += 1
        return key
    v = make_value(w, fam)
    do_add(w, fam, key_for(fam), v, root)
    for g in FAMILIES:
        if g == fam:
            continue
        try:
            do_get(w, g, key_for(g), root)
            raised = False
        except RuntimeError:
            raised = True
        ex.prove(raised, 'written:%s read:%s -> RuntimeError' % (fam, g))
    ex.cover('checked-against-all-families')
    ex.sample({'written_family': fam, 'files': [str.__repr__(p) for p, c in w.env.fs.files][:2]})


@harness('C06', name='free_keys', universe=_universe, timeout_ms=90000,
         tiers={'quick': [{'fam': f} for f in FAMILIES], 'thorough': [{'fam': f} for f in FAMILIES]},
         functions=[R + m for m in MODS], cover=['hit', 'miss'],
         bounds={'keys': 'two unconstrained symbolic keys of the same family (for the two 4-component path families the first component '
                         'is shared, three are free): whether they denote the same stored location is decided by the solver on the '
                         'path / JSON-key terms'},
         stubs=['as round_trip'], outside=['as round_trip'])
def free_keys(ex, uni, fam):
    w = World(ex, uni)
    root = w.root
    k1 = make_key(w, fam, 'a')
    k2 = make_key(w, fam, 'b')
    nfree = 3 if fam in ('pec_thermal_cx', 'beam_population') else len(k1)
    k2 = list(k1[:len(k1) - nfree]) + k2[len(k1) - nfree:]     # string solvers decide up to three free components per path
    v1 = make_value(w, fam)
    do_add(w, fam, k1, v1, root)
    try:
        got = do_get(w, fam, k2, root)
        hit = True
    except RuntimeError:
        hit = False
    if fam == 'beam_cx':
        ka, kb = [k1[0]] + k1[2:], [k2[0]] + k2[2:]     # metastable not part of the read key
    else:
        ka, kb = k1, k2
    same = w.same_key(ka, kb)
    if hit:
        ex.cover('hit')
        ex.prove(same, 'a-read-that-succeeds-used-the-written-key(all-components-equal-by-lower-case-form)')
        ex.prove(same_value(fam, v1, got), 'and-returns-the-written-value')
    else:
        ex.cover('miss')
        ex.prove(ex.not_(same), 'a-read-that-fails-used-a-different-key')
    ex.sample({'family': fam, 'hit': hit})


@harness('C06', name='store_integrity', universe=_universe,
         tiers={'quick': [{'fam': f} for f in FAMILIES], 'thorough': [{'fam': f} for f in FAMILIES]},
         functions=[R + m for m in MODS], cover=['default-path', 'rejected-update'],
         bounds={'pre-state': 'file already holding an entry; repository_path None; invalid charge (> atomic number); new arrays with or without NaN / inf (symbolic)'},
         stubs=['as round_trip'], outside=['as round_trip'])
def store_integrity(ex, uni, fam):
    w = World(ex, uni)
    # (a) repository_path=None is the only way to the default location
    k1 = make_key(w, fam, 'a')
    v1 = make_value(w, fam)
    do_add(w, fam, k1, v1, None)
    default = w.mods['atomic'].DEFAULT_REPOSITORY_PATH
    ex.cover('default-path')
    ex.prove(all(str.__str__(p).startswith(default + '/') for p in w.env.fs.writes) and len(w.env.fs.writes) >= 1,
             'repository_path=None-writes-under-the-default-repository')
    try:
        ok = same_value(fam, v1, do_get(w, fam, k1, None))
    except RuntimeError:
        ok = False
    ex.prove(ok, 'default-repository-round-trip')
    # (b) an update rejected for an invalid charge leaves the stored key readable
    bad = list(k1)
    idx = [j for j, c in enumerate(k1) if FAM[fam][3][j] == 'C']
    el_idx = [j for j, c in enumerate(k1) if isinstance(c, Elem)]
    if idx:
        j = idx[-1]
        # the element that owns this charge gets a small atomic number; the new charge exceeds it
        owner = max(e for e in el_idx if e < j)
        small = Elem(k1[owner].symbol, 3)
        bad[owner] = small
        bad[j] = w.const(7)
        before = len(w.env.fs.writes)
        try:
            do_add(w, fam, bad, make_value(w, fam), None)
            rejected = False
        except ValueError:
            rejected = True
        ex.cover('rejected-update')
        ex.prove(rejected, 'charge-above-atomic-number-is-rejected')
        ex.prove(len(w.env.fs.writes) == before, 'rejected-update-writes-nothing')
        try:
            ok = same_value(fam, v1, do_get(w, fam, k1, None))
        except RuntimeError:
            ok = False
        ex.prove(ok, 'previously-stored-key-still-readable-after-rejected-update')
    else:
        ex.cover('rejected-update')
    # (c) an update whose arrays may contain NaN / inf (symbolic choice): it is either stored (and read back) or rejected, and in
    #     both cases the key stored before stays readable - a write that fails half-way must not leave a truncated file behind
    from symx import symstr
    symstr.NONFINITE_TAGS.clear()
    v2 = make_value(w, fam)       # written under the same key k1: last write wins if accepted, the old value stays if rejected
    if bool(ex.bool('new_arrays_contain_nan_or_inf')):
        symstr._tags(v2 if not isinstance(v2, float) else [], symstr.NONFINITE_TAGS)
    try:
        do_add(w, fam, k1, v2, None)
        stored = True
    except ValueError:
        stored = False
    try:
        ok = same_value(fam, v2 if stored else v1, do_get(w, fam, k1, None))
    except Exception:
        ok = False
    ex.prove(ok, 'update-with-non-finite-numbers-is-stored-or-rejected-leaving-the-stored-key-readable')
    symstr.NONFINITE_TAGS.clear()
    ex.sample({'family': fam})


# ------------------------------------------------------------------------------------------------ install front-ends
INSTALL = 'cherab.openadas.install'


def _install_universe():
    return Universe(stubs={'Element': Elem, 'hydrogen': Elem(SAtomStub('h'), 1) if False else None})


class SAtomStub:
    pass


@harness('C06', name='install_frontends',
         tiers={'quick': [{}], 'thorough': [{}]},
         functions=[INSTALL + '.install_adf11scd', INSTALL + '.install_adf11acd', INSTALL + '.install_adf11ccd', INSTALL + '.install_adf11plt',
                    INSTALL + '.install_adf11prb', INSTALL + '.install_adf11prc', INSTALL + '.install_adf12', INSTALL + '.install_adf15',
                    INSTALL + '.install_adf21', INSTALL + '.install_adf22bmp', INSTALL + '.install_adf22bme', INSTALL + '.install_files'],
         cover=['all-front-ends-called'],
         bounds={'front-ends': 'all 11 install_adf* functions and install_files, parsers and repository.update_* replaced by recording stubs'},
         stubs=['parse_adf*: return tagged tables', 'repository.update_*: record (function, tables, repository_path)'],
         outside=['downloading', 'the parsers themselves (C08)'])
def install_frontends(ex, uni):
    import numpy as np
    inst = uni.load(INSTALL)
    calls = []

    class Repo:
        utility = types.SimpleNamespace(DEFAULT_REPOSITORY_PATH='/default')

        def __getattr__(self, name):
            def rec(rates, repository_path='<omitted>'):
                calls.append((name, rates, repository_path))
            return rec
    inst.repository = Repo()
    inst.os = types.SimpleNamespace(path=types.SimpleNamespace(join=lambda *a: '/'.join(a), isfile=lambda p: True, isdir=lambda p: True,
                                                               dirname=lambda p: p), makedirs=lambda d: None)
    tab = lambda: {'ne': np.array([1.0, 2.0]), 'te': np.array([1.0, 2.0, 3.0]), 'rates': np.zeros((2, 3)), 'rate': np.zeros((2, 3))}
    el = Elem('x', 5)
    inst.parse_adf11 = lambda element, path: {element: {1: tab()}}
    inst.parse_adf12 = lambda *a: ('adf12', a[:4])
    inst.parse_adf15 = lambda element, ion, path, header_format=None: ({'excitation': {'k': 1}, 'thermalcx': {element: {0: {(3, 2): tab()}}}}, {'wl': 1})
    inst.parse_adf21 = lambda *a: ('adf21', a[:3])
    inst.parse_adf22bmp = lambda *a: ('adf22bmp', a[:4])
    inst.parse_adf22bme = lambda *a: ('adf22bme', a[:4])
    root = 'ROOT-TOKEN'
    expect = {
        'install_adf11scd': ((el, 'f'), ['update_ionisation_rates']),
        'install_adf11acd': ((el, 'f'), ['update_recombination_rates']),
        'install_adf11ccd': ((el, 0, el, 'f'), ['update_thermal_cx_rates']),
        'install_adf11plt': ((el, 'f'), ['update_line_power_rates']),
        'install_adf11prb': ((el, 'f'), ['update_continuum_power_rates']),
        'install_adf11prc': ((el, 'f'), ['update_cx_power_rates']),
        'install_adf12': ((el, 1, el, 2, 'f'), ['update_beam_cx_rates']),
        'install_adf15': ((el, 0, 'f'), ['update_pec_thermal_cx_rates', 'update_pec_rates', 'update_wavelengths']),
        'install_adf21': ((el, el, 1, 'f'), ['update_beam_stopping_rates']),
        'install_adf22bmp': ((el, 0, el, 1, 'f'), ['update_beam_population_rates']),
        'install_adf22bme': ((el, el, 1, (3, 2), 'f'), ['update_beam_emission_rates']),
    }
    for fn, (args, want) in expect.items():
        del calls[:]
        getattr(inst, fn)(*args, repository_path=root, adas_path='/adas')
        ex.prove([c[0] for c in calls] == want, fn + '-routes-to-' + '+'.join(want))
        ex.prove(all(c[2] == root for c in calls), fn + '-forwards-repository_path')
    # install_files dispatches every configured file with the repository path
    del calls[:]
    conf = {'adf11scd': [(el, 'f')], 'adf11acd': [(el, 'f')], 'adf11ccd': [(el, 0, el, 'f')], 'adf11plt': [(el, 'f')], 'adf11prb': [(el, 'f')],
            'adf11prc': [(el, 'f')], 'adf12': [(el, 1, el, 2, 'f')], 'adf15': [(el, 0, 'f')], 'adf21': [(el, el, 1, 'f')],
            'adf22bmp': [(el, 0, el, 1, 'f')], 'adf22bme': [(el, el, 1, (3, 2), 'f')]}
    inst.install_files(conf, repository_path=root, adas_path='/adas')
    ex.prove(len(calls) == 13 and all(c[2] == root for c in calls), 'install_files-forwards-repository_path-to-every-update')
    ex.cover('all-front-ends-called')
    ex.sample({'front_ends': len(expect)})

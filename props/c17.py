"""C17 — voxel area, centroid and volume are exact and independent of vertex order (voxels.pyx translated)."""
import math
import numpy as np

from symx.harness import harness
from symx import core, rs_model
from symx.core import MATH
from symx.universe import Universe

VOX = 'cherab.tools.inversions.voxels'


def _winding2d(v):
    """raysect winding2d: True for clockwise vertex order (sign of the shoelace sum)"""
    n = len(v)
    s = 0
    for i in range(n):
        j = (i + 1) % n
        s = s + (v[j][0] - v[i][0]) * (v[j][1] + v[i][1])
    return bool(s > 0)


def _triangulate2d(v):
    n = len(v)
    return np.array([[0, i, i + 1] for i in range(1, n - 1)], dtype=int)


def _find_index(x, v, padding=0.0):
    """raysect.core.math.cython.find_index: i with x[i] <= v < x[i+1]; -1 below, n-1 at/above the last element"""
    n = len(x)
    if v < x[0]:
        return -1
    if v >= x[n - 1]:
        return n - 1
    for i in range(n - 1):
        if v < x[i + 1]:
            return i
    return n - 1


class _Rec:
    def __init__(self, *a, **k):
        self.a, self.k = a, k
        self.parent = None
        self.material = None


class _NodeStub:
    def __init__(self, parent=None, transform=None, name=None):
        self.parent, self.children = parent, []


def _universe():
    stubs = {'winding2d': _winding2d, 'triangulate2d': _triangulate2d, 'find_index': _find_index,
             'maximum': lambda a: max(a), 'minimum': lambda a: min(a), 'peak_to_peak': lambda a: max(a) - min(a),
             'Cylinder': _Rec, 'Cone': _Rec, 'Intersect': _Rec, 'Subtract': _Rec, 'Union': _Rec, 'Mesh': _Rec,
             'UnityVolumeEmitter': _Rec, 'Node': _NodeStub, 'Point2D': rs_model.Point2D}
    return Universe(stubs=stubs)


def _poly(ex, n):
    xs = [ex.real('x%d' % i, nonneg=True) for i in range(n)]
    ys = [ex.real('y%d' % i) for i in range(n)]
    return xs, ys


def _signed_area2(xs, ys):
    n = len(xs)
    s = 0
    for i in range(n):
        j = (i + 1) % n
        s = s + (xs[i] * ys[j] - xs[j] * ys[i])
    return s


def _fan(xs, ys):
    """fan triangulation from vertex 0 with signed triangle areas: (2*area, 6*area*cx, 6*area*cy)"""
    a2 = mx = my = 0
    for i in range(1, len(xs) - 1):
        t2 = (xs[i] - xs[0]) * (ys[i + 1] - ys[0]) - (xs[i + 1] - xs[0]) * (ys[i] - ys[0])
        a2 = a2 + t2
        mx = mx + t2 * (xs[0] + xs[i] + xs[i + 1])
        my = my + t2 * (ys[0] + ys[i] + ys[i + 1])
    return a2, mx, my


def _voxel(mod, ex, xs, ys):
    K = mod.AxisymmetricVoxel
    v = K.__new__(K)
    arr = np.empty((len(xs), 2), dtype=object if ex.sym else float)
    for i in range(len(xs)):
        arr[i, 0], arr[i, 1] = xs[i], ys[i]
    v._vertices = arr
    return v


@harness('C17', name='area_centroid_volume', universe=_universe,
         tiers={'quick': [{'n': n} for n in (3, 4, 5)], 'thorough': [{'n': n} for n in (3, 4, 5, 6)]},
         functions=[VOX + '.AxisymmetricVoxel.cross_sectional_area', VOX + '.AxisymmetricVoxel.cross_section_centroid', VOX + '.AxisymmetricVoxel.volume'],
         cover=['evaluated'],
         bounds={'vertices': 'n concrete per job; all coordinates symbolic (r >= 0); polygon of non-zero signed area'},
         stubs=['the voxel is built directly from its vertex array (constructor geometry is not needed for these properties)'],
         outside=['simplicity of the polygon is not needed: the identities hold for the signed quantities', 'floating-point rounding'])
def area_centroid_volume(ex, uni, n):
    mod = uni.load(VOX)
    xs, ys = _poly(ex, n)
    s2 = _signed_area2(xs, ys)
    ex.assume(ex.not_(ex.eq(s2, 0)), 'non-degenerate polygon (signed area != 0)')
    v = _voxel(mod, ex, xs, ys)
    A = v.cross_sectional_area
    c = v.cross_section_centroid
    V = v.volume
    ex.cover('evaluated')
    a2, mx, my = _fan(xs, ys)
    ex.prove(ex.all([ex.le(0, A), ex.any([ex.eq(2 * A, a2), ex.eq(2 * A, -a2)])]), 'area==|fan-triangulation-area|')
    ex.prove(ex.all([ex.eq(c.x * 3 * a2, mx), ex.eq(c.y * 3 * a2, my)]), 'centroid==area-weighted-mean-of-fan-triangle-centroids')
    ex.prove(ex.eq(V, 2 * math.pi * c.x * A), 'volume==2*pi*centroid-radius*area')
    # any cyclic rotation and the reversed orientation give the same area and centroid
    k = int(ex.int('rotation', 0, n - 1))
    rev = bool(ex.bool('reversed'))
    idx = [(i + k) % n for i in range(n)]
    if rev:
        idx = idx[::-1]
    v2 = _voxel(mod, ex, [xs[i] for i in idx], [ys[i] for i in idx])
    c2 = v2.cross_section_centroid
    ex.prove(ex.eq(v2.cross_sectional_area, A), 'area-independent-of-start-vertex-and-orientation')
    ex.prove(ex.all([ex.eq(c2.x, c.x), ex.eq(c2.y, c.y)]), 'centroid-independent-of-start-vertex-and-orientation')
    ex.prove(ex.eq(v2.volume, V), 'volume-independent-of-start-vertex-and-orientation')
    ex.sample({'vertices': n, 'rotation': k, 'reversed': rev})


@harness('C17', name='constructor', universe=_universe,
         tiers={'quick': [{'n': n} for n in (3, 4)], 'thorough': [{'n': n} for n in (3, 4, 5)]},
         functions=[VOX + '.AxisymmetricVoxel.__init__'], cover=['constructed', 'rejected'],
         bounds={'vertices': 'n concrete per job; coordinates symbolic'},
         stubs=['raysect winding2d (sign of the shoelace sum), triangulate2d (fan), CSG primitives (recording stubs); the CSG builders are '
                'replaced by no-ops'],
         outside=['the constructive solid geometry of the voxel (ray tracing)'])
def constructor(ex, uni, n):
    mod = uni.load(VOX)
    K = mod.AxisymmetricVoxel
    K._build_csg_from_triangle = lambda self, verts: None
    K._build_csg_from_rectangle = lambda self: None
    K._has_rectangular_cross_section = lambda self: False
    xs = [ex.real('x%d' % i) for i in range(n)]
    ys = [ex.real('y%d' % i) for i in range(n)]
    verts = [(xs[i], ys[i]) for i in range(n)]
    try:
        v = K(verts)
        err = None
    except ValueError as e:
        v, err = None, e
    neg = ex.any([x < 0 for x in xs])
    if err is not None:
        ex.cover('rejected')
        ex.prove(neg, 'ValueError-only-for-negative-radius')
        return
    ex.cover('constructed')
    ex.prove(ex.not_(neg), 'negative-radius-is-rejected')
    got = [(v._vertices[i, 0], v._vertices[i, 1]) for i in range(n)]
    same = ex.all([ex.all([ex.eq(g[0], w[0]), ex.eq(g[1], w[1])]) for g, w in zip(got, verts)])
    revd = ex.all([ex.all([ex.eq(g[0], w[0]), ex.eq(g[1], w[1])]) for g, w in zip(got, verts[::-1])])
    ex.prove(ex.any([same, revd]), 'stored-vertices-are-the-given-ones-possibly-reversed')
    a2, mx, my = _fan(xs, ys)
    ex.prove(ex.any([ex.eq(2 * v.cross_sectional_area, a2), ex.eq(2 * v.cross_sectional_area, -a2)]), 'area-after-construction==polygon-area')
    for bad in ([(1.0, 0.0), (2.0, 0.0)], []):
        try:
            K(bad)
            ok = False
        except TypeError:
            ok = True
        ex.prove(ok, 'fewer-than-3-vertices=>TypeError')
    ex.sample({'vertices': n})


@harness('C17', name='sampling_and_totals', universe=_universe,
         tiers={'quick': [{'n': n, 'samples': s} for n, s in ((3, 2), (4, 2), (5, 1))], 'thorough': [{'n': n, 'samples': s} for n, s in ((3, 2), (4, 3), (5, 2), (6, 1))]},
         functions=[VOX + '.AxisymmetricVoxel.emissivity_from_function', VOX + '.VoxelCollection.total_volume'],
         cover=['sampled'],
         bounds={'polygon': 'convex n-gon (all fan triangles positively oriented), coordinates symbolic', 'samples': 'grid_samples concrete per job; '
                 'every uniform() draw a fresh symbolic u in [0,1); points inside the chosen triangle symbolic barycentric combinations'},
         stubs=['raysect uniform(), point_triangle(), find_index(), triangulate2d (fan)'],
         outside=['uniformity of point_triangle inside a triangle (raysect)', 'unbiasedness beyond: triangle chosen with probability area/total'])
def sampling_and_totals(ex, uni, n, samples):
    mod = uni.load(VOX)
    xs, ys = _poly(ex, n)
    tri2 = []
    for i in range(1, n - 1):
        t2 = (xs[i] - xs[0]) * (ys[i + 1] - ys[0]) - (xs[i + 1] - xs[0]) * (ys[i] - ys[0])
        ex.assume(t2 > 0, 'convex polygon, counter-clockwise')
        tri2.append(t2)
    v = _voxel(mod, ex, xs, ys)
    v._triangles = _triangulate2d(list(zip(xs, ys)))
    draws, chosen = [], []

    def uniform():
        u = ex.real('u%d' % len(draws), lo=0)
        ex.assume(u < 1)
        draws.append(u)
        return u

    def point_triangle(p1, p2, p3):
        k = len(chosen)
        w1, w2 = ex.real('w1_%d' % k, lo=0), ex.real('w2_%d' % k, lo=0)
        ex.assume(w1 + w2 <= 1)
        w3 = 1 - w1 - w2
        chosen.append((p1, p2, p3))
        return rs_model.Point3D(w1 * p1.x + w2 * p2.x + w3 * p3.x, 0.0, w1 * p1.z + w2 * p2.z + w3 * p3.z)
    g = mod.__dict__
    g['uniform'], g['point_triangle'] = uniform, point_triangle
    const = ex.real('emissivity')
    calls = []

    class Em(rs_model.Function3D):
        def evaluate(self, x, y, z):
            calls.append((x, y, z))
            return const
    res = v.emissivity_from_function(Em(), grid_samples=samples)
    ex.cover('sampled')
    ex.prove(ex.eq(res, const), 'constant-emissivity-is-returned-exactly')
    ex.prove(len(chosen) == samples and len(calls) == samples, 'one-sample-per-requested-grid-sample')
    total2 = sum(tri2[1:], tri2[0])
    ntri = n - 2
    for k, (p1, p2, p3) in enumerate(chosen):
        # which triangle was chosen (identity of the vertex objects handed to point_triangle)
        t = None
        for j in range(ntri):
            if p2.x is xs[j + 1] and p3.x is xs[j + 2] and p1.x is xs[0]:
                t = j
        ex.prove(t is not None, 'sampled-triangle-is-a-triangle-of-the-voxel')
        if t is None:
            continue
        if ntri > 1:
            lo = sum(tri2[:t], 0)
            hi = lo + tri2[t]
            u = draws[k]
            ex.prove(ex.all([ex.le(lo, u * total2), ex.lt(u * total2, hi)]), 'triangle-chosen-with-probability-area/total(cum[t-1]<=u*total<cum[t])')
        x, y, z = calls[k]
        # sample lies in the r-z plane inside the chosen triangle (convex combination handed back by the stub)
        ex.prove(ex.eq(y, 0), 'sample-point-in-the-poloidal-plane')
    # grid total volume = sum of voxel volumes
    C = mod.VoxelCollection
    col = C.__new__(C)
    vols = [ex.real('vol%d' % i, nonneg=True) for i in range(3)]
    col._voxels = [type('V', (), {'volume': q})() for q in vols]
    ex.prove(ex.eq(col.total_volume, vols[0] + vols[1] + vols[2]), 'total_volume==sum-of-voxel-volumes')
    ex.sample({'vertices': n, 'samples': samples, 'triangles': ntri})

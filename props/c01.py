"""C01 — no stale derived state: the observation after a history of changes equals the observation of a scene built from scratch.

The real Plasma / Beam nodes, PlasmaMaterial / BeamMaterial, the emission models and the attenuator are executed from translated source
on a transcribed raysect scene graph (symx/scene_model.py).  A history is: build -> [observe] -> change_1 -> [observe] -> change_2 -> observe;
the changes are drawn from the public mutators, their new values are fresh symbolic objects, the optional observations fill the lazy
caches.  The final observation is compared by the solver with the observation of a scene constructed directly in the final configuration."""
import math

from symx.harness import harness
from symx import core, rs_model, scene_model as SM
from symx.core import MATH
from symx.universe import Universe
from props import plasma_world as W

MP = 'cherab.core.model.plasma.'
H, D_, T_ = W.El('hydrogen', 1), W.El('deuterium', 1), W.El('tritium', 1)
A = W.El('A', 3)


def _universe():
    stubs = dict(SM.STUBS)
    stubs.update({'hydrogen': H, 'deuterium': D_, 'tritium': T_, 'Element': W.El})
    return Universe(stubs=stubs)


def translate(x, y, z):
    return rs_model.AffineMatrix3D([[1.0, 0.0, 0.0, x], [0.0, 1.0, 0.0, y], [0.0, 0.0, 1.0, z], [0.0, 0.0, 0.0, 1.0]])


class Gaunt:
    """free-free Gaunt factor provider: uninterpreted positive function tagged by provider"""
    def __init__(self, ex, tag):
        self.ex, self.tag = ex, tag

    def evaluate(self, z, te, wvl):
        return self.ex.uf('gaunt_' + self.tag, z, te, wvl, pos=True)

    __call__ = evaluate


class AD(W.AtomicData):
    def free_free_gaunt_factor(self):
        return Gaunt(self.ex, self.tag)


class Quad:
    """Integrator1D stand-in of Bremsstrahlung: integral == uninterpreted INT of the integrand's parameters is too opaque to compare two
    scenes, so the integrand is sampled at the interval mid-point (any fixed quadrature rule distinguishes stale from fresh integrands)"""
    def __init__(self):
        self.function = None

    def evaluate(self, a, b):
        return self.function.evaluate(0.5 * (a + b)) * (b - a)


class PlasmaScene:
    """live scene + the configuration record it is supposed to be in"""
    SPECIES = [(A, 0), (A, 1), (A, 2), (D_, 0), (D_, 1)]

    def __init__(self, ex, uni, cfg=None, gen=None):
        self.ex, self.uni = ex, uni
        self.node = uni.load('cherab.core.plasma.node')
        self.spm = uni.load('cherab.core.species')
        self.base = uni.load('cherab.core.model.lineshape.base').LineShapeModel
        self.gen = gen if gen is not None else [0]
        self.world = SM.World()
        self.cfg = dict(cfg) if cfg is not None else self.initial_cfg()
        self.build()

    # --- fresh symbolic values
    def fresh(self, kind):
        self.gen[0] += 1
        k = self.gen[0]
        ex = self.ex
        if kind == 'ad':
            return AD(ex, 'ad%d' % k)
        if kind == 'species':
            return [self.spm.Species(el, q, self.dist('%s%d_v%d' % (el.name, q, k))) for el, q in self.SPECIES]
        if kind == 'edist':
            return self.dist('e_v%d' % k)
        if kind == 'bfield':
            return rs_model.Vector3D(ex.real('Bx_v%d' % k), ex.real('By_v%d' % k), ex.real('Bz_v%d' % k))
        if kind == 'geometry':
            return SM.Sphere(2.0 + k)
        if kind == 'gtransform':
            return translate(ex.real('gtx_v%d' % k), 0.0, 0.0)
        if kind == 'integrator':
            return SM.NumericalIntegrator(step=0.001 * k)
        if kind == 'transform':
            return translate(ex.real('ptx_v%d' % k), 0.0, 0.0)
        raise KeyError(kind)

    def dist(self, tag):
        d = W.Dist(self.ex, tag, moving=False)
        # guards against non-positive densities / temperatures are C03's subject: keep one path per model here
        self.ex.assume(d.density(0, 0, 0) > 0, 'positive densities and temperatures (the <= 0 guards are covered by C03)')
        self.ex.assume(d.effective_temperature(0, 0, 0) > 0, 'positive densities and temperatures (the <= 0 guards are covered by C03)')
        return d

    def initial_cfg(self):
        return {'ad': self.fresh('ad'), 'species': self.fresh('species'), 'edist': self.fresh('edist'), 'bfield': self.fresh('bfield'),
                'geometry': self.fresh('geometry'), 'gtransform': None, 'integrator': self.fresh('integrator'), 'transform': None, 'attached': True,
                'models': ['excitation', 'recombination', 'thermalcx', 'brems', 'totalpower']}

    def new_models(self, kinds):
        Rec = W.make_recording_lineshape(self.base)
        self.Rec = Rec
        out = []
        for k in kinds:
            if k == 'excitation':
                out.append(self.uni.load(MP + 'impact_excitation').ExcitationLine(W.Line(A, 1, (3, 2)), lineshape=Rec))
            elif k == 'recombination':
                out.append(self.uni.load(MP + 'recombination').RecombinationLine(W.Line(A, 1, (3, 2)), lineshape=Rec))
            elif k == 'thermalcx':
                out.append(self.uni.load(MP + 'thermal_cx').ThermalCXLine(W.Line(A, 1, (3, 2)), lineshape=Rec))
            elif k == 'brems':
                out.append(self.uni.load(MP + 'bremsstrahlung').Bremsstrahlung(integrator=Quad()))
            elif k == 'totalpower':
                out.append(self.uni.load(MP + 'total_radiated_power').TotalRadiatedPower(A, 1))
        return out

    def build(self):
        c = self.cfg
        p = self.plasma = self.node.Plasma(parent=self.world if c['attached'] else None, transform=c['transform'], integrator=c['integrator'])
        p.atomic_data = c['ad']
        p.geometry = c['geometry']
        if c['gtransform'] is not None:
            p.geometry_transform = c['gtransform']
        p.b_field = c['bfield']
        p.composition = c['species']
        p.electron_distribution = c['edist']
        self.models = self.new_models(c['models'])
        p.models = self.models

    # --- mutators: each changes the live plasma and the configuration record
    def apply(self, op):
        p, c = self.plasma, self.cfg
        if op == 'atomic_data':
            c['ad'] = self.fresh('ad')
            p.atomic_data = c['ad']
        elif op == 'composition.set':
            c['species'] = self.fresh('species')
            p.composition = c['species']
        elif op == 'composition.add':
            new = self.fresh('species')[1]      # replaces the (A, 1) species
            c['species'] = [new if (s.element is new.element and s.charge == new.charge) else s for s in c['species']]
            p.composition.add(new)
        elif op == 'composition.clear+set':
            p.composition.clear()
            c['species'] = self.fresh('species')
            p.composition.set(c['species'])
        elif op == 'electron_distribution':
            c['edist'] = self.fresh('edist')
            p.electron_distribution = c['edist']
        elif op == 'b_field':
            c['bfield'] = self.fresh('bfield')
            p.b_field = c['bfield']
        elif op == 'geometry':
            c['geometry'] = self.fresh('geometry')
            p.geometry = c['geometry']
        elif op == 'geometry_transform':
            c['gtransform'] = self.fresh('gtransform')
            p.geometry_transform = c['gtransform']
        elif op == 'integrator':
            c['integrator'] = self.fresh('integrator')
            p.integrator = c['integrator']
        elif op == 'models.set':
            c['models'] = ['recombination', 'excitation', 'totalpower']
            self.models = self.new_models(c['models'])
            p.models = self.models
        elif op == 'models.add':
            c['models'] = c['models'] + ['excitation']
            m = self.new_models(['excitation'])[0]
            # keep one recording class for the whole scene
            self.models = self.models + [m]
            p.models.add(m)
        elif op == 'models.clear+set':
            p.models.clear()
            c['models'] = ['brems', 'thermalcx']
            self.models = self.new_models(c['models'])
            p.models.set(self.models)
        elif op == 'transform':
            c['transform'] = self.fresh('transform')
            p.transform = c['transform']
        elif op == 'reparent':
            self.world = SM.World()
            p.parent = self.world
        elif op == 'detach+attach':
            p.parent = None
            p.parent = self.world
        else:
            raise KeyError(op)

    # --- observation
    def observe(self, pt, dr):
        """what a ray crossing the plasma geometry at `pt` would collect: the material's emission function"""
        p = self.plasma
        g = p.geometry
        kids = list(p.children)
        if not kids:
            return ('no-emitter',)
        if kids != [g]:
            return ('children', len(kids))
        mat = g.material
        sp = self.uni.rs.Spectrum(400.0, 500.0, 2)
        lines = []
        seen = {}
        try:
            out = mat.emission_function(pt, dr, sp, self.world, None, g, None, None)
        except Exception as e:
            return ('raises', type(e).__name__)
        # line radiances handed to (recording) line shapes, in model order
        for m in mat._models:
            ls = getattr(m, '_lineshape', None)
            if ls is not None:
                line, wl, target, plasma, ad, a, k = ls.ctor
                lines.append((type(m).__name__, [c[0] for c in ls.calls[-1:]], wl, target, plasma is p, ad))
        return ('spectrum', [out.samples[i] for i in range(2)], lines, mat.integrator, mat._local_to_plasma, g)


def _same_obs(ex, a, b, cfg_a=None):
    """structural comparison; numeric parts by the solver"""
    if a[0] != b[0]:
        return False
    if a[0] != 'spectrum':
        return a == b
    _, sa, la, ia, ta, ga = a
    _, sb, lb, ib, tb, gb = b
    if len(la) != len(lb):
        return False
    conds = [ex.eq(x, y) for x, y in zip(sa, sb)]
    for (na, ra, wa, tga, pa, ada), (nb, rb, wb, tgb, pb, adb) in zip(la, lb):
        if na != nb or len(ra) != len(rb) or tga is not tgb or ada is not adb or not (pa and pb):
            return False
        conds.append(ex.eq(wa, wb))
        conds += [ex.eq(x, y) for x, y in zip(ra, rb)]
    if ia is not ib or ga is not gb:
        return False
    if (ta is None) != (tb is None):
        return False
    if ta is not None:
        conds += [ex.eq(ta.m[i][j], tb.m[i][j]) for i in range(3) for j in range(4)]
    return ex.all(conds)


PLASMA_OPS = ['atomic_data', 'composition.set', 'composition.add', 'composition.clear+set', 'electron_distribution', 'b_field', 'geometry', 'geometry_transform',
              'integrator', 'models.set', 'models.add', 'models.clear+set', 'transform', 'reparent', 'detach+attach']


@harness('C01', name='plasma_history', universe=_universe,
         tiers={'quick': [{'op1': o, 'depth': 2} for o in PLASMA_OPS], 'thorough': [{'op1': o, 'depth': 3} for o in PLASMA_OPS]},
         functions=['cherab.core.plasma.node.Plasma', 'cherab.core.plasma.node.Composition', 'cherab.core.plasma.node.ModelManager', 'cherab.core.plasma.model.PlasmaModel',
                    'cherab.core.plasma.material.PlasmaMaterial', MP + 'impact_excitation.ExcitationLine', MP + 'recombination.RecombinationLine',
                    MP + 'thermal_cx.ThermalCXLine', MP + 'bremsstrahlung.Bremsstrahlung', MP + 'total_radiated_power.TotalRadiatedPower',
                    'cherab.core.utility.notify.Notifier'],
         cover=['history-explored', 'observed:spectrum'],
         bounds={'history': 'build -> [observe] -> op1 -> [observe] -> op2 (-> [observe] -> op3 in the thorough tier) -> observe; op1 concrete per job, later ops and the '
                            'interleaved observations are symbolic choices over the 15 plasma mutators (all orders of 2 / 3 changes)',
                 'values': 'every new value (provider, species distributions, electron distribution, B field, transforms) is a fresh symbolic object; '
                           'observation point symbolic; five passive models attached at once'},
         stubs=['raysect scene graph: transcription (symx/scene_model.py), translations only', 'line shapes: recording stub', 'rates / Gaunt factor: uninterpreted '
                'functions tagged by provider and request', 'Bremsstrahlung quadrature: mid-point rule'],
         outside=['ray tracing through the bounding primitive (the observation is PlasmaMaterial.emission_function at a symbolic point)', 'non-positive densities / '
                  'temperatures (C03)', 'histories longer than the stated depth'])
def plasma_history(ex, uni, op1, depth):
    gen = [0]
    live = PlasmaScene(ex, uni, gen=gen)
    pt = rs_model.Point3D(ex.real('px'), ex.real('py'), ex.real('pz'))
    dr = rs_model.Vector3D(ex.real('dx'), ex.real('dy'), ex.real('dz'))
    ops = [op1] + [ex.choice('op%d' % k, PLASMA_OPS) for k in range(2, depth + 1)]
    trace = []
    for k, op in enumerate(ops):
        if bool(ex.bool('observe_before_op%d' % (k + 1))):
            live.observe(pt, dr)
            trace.append('observe')
        live.apply(op)
        trace.append(op)
    got = live.observe(pt, dr)
    fresh = PlasmaScene(ex, uni, cfg=live.cfg, gen=gen)
    if fresh.world is not live.world and not live.cfg['attached']:
        pass
    want = fresh.observe(pt, dr)
    ex.cover('history-explored')
    ex.cover('observed:' + str(got[0]))
    # identity-valued parts of the fresh observation refer to the fresh scene's own objects where those are per-scene (geometry is shared via cfg)
    ex.prove(_same_obs(ex, got, want), 'observation-after-history==observation-of-a-scene-built-from-scratch', info={'history': trace})
    # derived plasma quantities
    ex.prove(ex.eq(live.plasma.ion_density(pt.x, pt.y, pt.z), fresh.plasma.ion_density(pt.x, pt.y, pt.z)), 'ion_density-depends-on-the-final-composition-only')
    ex.prove(ex.eq(live.plasma.z_effective(pt.x, pt.y, pt.z), fresh.plasma.z_effective(pt.x, pt.y, pt.z)), 'z_effective-depends-on-the-final-composition-only')
    ex.sample({'history': trace})


# ================================================================================================ beam side
from props import c04 as _c04

MB = 'cherab.core.model.beam.'
ATT = 'cherab.core.model.attenuator.singleray'
Hb = W.El('hydrogen', 1, 1.00797)
C6 = W.El('C', 6, 12.011)
Dp = W.El('D', 1, 2.0141)


def _beam_universe():
    stubs = dict(SM.STUBS)
    stubs.update({'hydrogen': Hb, 'deuterium': D_, 'tritium': T_, 'Element': W.El, 'Isotope': type('Isotope', (), {}),
                  'cumulative_trapezoid': _c04._cumtrapz, ('scipy.integrate', 'cumulative_trapezoid'): _c04._cumtrapz, 'Interpolator1DArray': _c04._Interp1})
    return Universe(stubs=stubs)


class BAD(W.AtomicData):
    """provider for the beam models: CX PECs per metastable (one here), all other coefficients generic tagged rates"""
    def beam_cx_pec(self, donor, receiver, charge, transition):
        r = self._rate('beam_cx_pec_m1', donor, receiver, charge, transition)
        r.donor_metastable = 1
        return [r]


class PosDist(W.Dist):
    """profiles are positive uninterpreted functions of position (the <= 0 guards of the models are C03 / C05's subject)"""
    def __init__(self, ex, tag):
        W.Dist.__init__(self, ex, tag, moving=False, pointwise=False)

    def density(self, x, y, z):
        return self.ex.uf('n_' + self.tag, x, y, z, pos=True)

    def effective_temperature(self, x, y, z):
        return self.ex.uf('T_' + self.tag, x, y, z, pos=True)


class BeamScene:
    SIGMA = {0.1: 0.2, 0.2: 0.1}
    DIV = {0.5: 2.0, 2.0: 0.5}

    def __init__(self, ex, uni, cfg=None, gen=None):
        self.ex, self.uni = ex, uni
        self.bnode = uni.load('cherab.core.beam.node')
        self.pnode = uni.load('cherab.core.plasma.node')
        self.spm = uni.load('cherab.core.species')
        self.att = uni.load(ATT)
        self.base = uni.load('cherab.core.model.lineshape.base').LineShapeModel
        self.gen = gen if gen is not None else [0]
        self.world = SM.World()
        self.cfg = dict(cfg) if cfg is not None else self.initial_cfg()
        self.build()

    def fresh(self, kind):
        self.gen[0] += 1
        k = self.gen[0]
        ex = self.ex
        if kind in ('energy', 'power', 'temperature'):
            return ex.real('%s_v%d' % (kind, k), pos=True)
        if kind == 'ad':
            return BAD(ex, 'ad%d' % k)
        if kind == 'species':
            out = []
            for el, q in ((C6, 6), (Dp, 1)):
                out.append(self.spm.Species(el, q, PosDist(ex, '%s%d_v%d' % (el.name, q, k))))
            return out
        if kind == 'edist':
            return PosDist(ex, 'e_v%d' % k)
        if kind == 'bfield':
            return rs_model.Vector3D(ex.real('Bx_v%d' % k), ex.real('By_v%d' % k), ex.real('Bz_v%d' % k))
        if kind in ('transform', 'ptransform'):
            return translate(ex.real('tx_v%d' % k), ex.real('ty_v%d' % k), ex.real('tz_v%d' % k))
        if kind == 'integrator':
            return SM.NumericalIntegrator(step=0.001 * k)
        if kind == 'attenuator':
            return self.att.SingleRayAttenuator(step=0.5, clamp_to_zero=False)
        raise KeyError(kind)

    def initial_cfg(self):
        c = {k: self.fresh(k) for k in ('energy', 'power', 'temperature', 'ad', 'species', 'edist', 'bfield', 'integrator')}
        c.update({'sigma': 0.1, 'divergence_x': 0.5, 'divergence_y': 2.0, 'length': 1.0, 'transform': None, 'ptransform': None, 'attached': True, 'models': ['bcx', 'bes'], 'clamp_sigma': 5.0, 'att_step': 0.5})
        return c

    def new_models(self, kinds):
        out = []
        for k in kinds:
            if k == 'bcx':
                Rec = W.make_recording_lineshape(self.base)
                out.append(self.uni.load(MB + 'charge_exchange').BeamCXLine(W.Line(C6, 5, (8, 7)), lineshape=Rec))
            elif k == 'bes':
                mod = self.uni.load(MB + 'beam_emission')

                class RecMSE:
                    def __init__(s, *a):
                        s.ctor, s.calls = a, []

                    def add_line(s, radiance, *a):
                        s.calls.append((radiance,) + a)
                        return a[-1]
                mod.BeamEmissionMultiplet = RecMSE
                out.append(mod.BeamEmissionLine(W.Line(Hb, 0, (3, 2))))
        return out

    def build(self):
        c = self.cfg
        p = self.plasma = self.pnode.Plasma(parent=self.world, transform=c['ptransform'])
        p.atomic_data = c['ad']
        p.b_field = c['bfield']
        p.composition = c['species']
        p.electron_distribution = c['edist']
        b = self.beam = self.bnode.Beam(parent=self.world if c['attached'] else None, transform=c['transform'])
        b.integrator = c['integrator']
        b.atomic_data = c['ad']
        b.plasma = p
        a = self.attenuator = self.att.SingleRayAttenuator(step=c['att_step'], clamp_to_zero=False, clamp_sigma=c['clamp_sigma'])
        b.attenuator = a
        b.energy, b.power, b.temperature, b.element = c['energy'], c['power'], c['temperature'], Hb
        b.sigma, b.divergence_x, b.divergence_y, b.length = c['sigma'], c['divergence_x'], c['divergence_y'], c['length']
        self.models = self.new_models(c['models'])
        b.models = self.models

    def apply(self, op):
        b, p, c = self.beam, self.plasma, self.cfg
        if op in ('energy', 'power', 'temperature'):
            c[op] = self.fresh(op)
            setattr(b, op, c[op])
        elif op == 'sigma':
            c['sigma'] = self.SIGMA[c['sigma']]
            b.sigma = c['sigma']
        elif op in ('divergence_x', 'divergence_y'):
            c[op] = self.DIV[c[op]]
            setattr(b, op, c[op])
        elif op == 'length':
            c['length'] = 2.0 if c['length'] == 1.0 else 1.0
            b.length = c['length']
        elif op == 'atomic_data':
            c['ad'] = self.fresh('ad')
            b.atomic_data = c['ad']
            p.atomic_data = c['ad']
        elif op == 'attenuator':
            c['att_step'] = 0.25 if c['att_step'] == 0.5 else 0.5
            self.attenuator = self.att.SingleRayAttenuator(step=c['att_step'], clamp_to_zero=False, clamp_sigma=c['clamp_sigma'])
            b.attenuator = self.attenuator
        elif op == 'attenuator.step':
            c['att_step'] = 0.25 if c['att_step'] == 0.5 else 0.5
            self.attenuator.step = c['att_step']
        elif op == 'attenuator.clamp_sigma':
            c['clamp_sigma'] = c['clamp_sigma'] + 1.0
            self.attenuator.clamp_sigma = c['clamp_sigma']
        elif op == 'models.set':
            c['models'] = ['bes', 'bcx']
            self.models = self.new_models(c['models'])
            b.models = self.models
        elif op == 'models.add':
            c['models'] = c['models'] + ['bcx']
            m = self.new_models(['bcx'])[0]
            self.models = self.models + [m]
            b.models.add(m)
        elif op == 'models.clear+set':
            b.models.clear()
            c['models'] = ['bcx']
            self.models = self.new_models(c['models'])
            b.models.set(self.models)
        elif op == 'integrator':
            c['integrator'] = self.fresh('integrator')
            b.integrator = c['integrator']
        elif op == 'transform':
            c['transform'] = self.fresh('transform')
            b.transform = c['transform']
        elif op == 'detach+attach':
            b.parent = None
            b.parent = self.world
        elif op == 'plasma.composition':
            c['species'] = self.fresh('species')
            p.composition = c['species']
        elif op == 'plasma.electron_distribution':
            c['edist'] = self.fresh('edist')
            p.electron_distribution = c['edist']
        elif op == 'plasma.b_field':
            c['bfield'] = self.fresh('bfield')
            p.b_field = c['bfield']
        elif op == 'plasma.transform':
            c['ptransform'] = self.fresh('ptransform')
            p.transform = c['ptransform']
        else:
            raise KeyError(op)

    def observe(self, x, y, z, dr):
        b = self.beam
        try:
            dens = b.density(x, y, z)
        except Exception as e:
            dens = ('raises', type(e).__name__)
        kids = list(b.children)
        if not kids:
            return ('no-emitter', dens)
        g = kids[0]
        geom = (type(g).__name__, getattr(g, 'radius', None), getattr(g, 'height', None), len(kids))
        if isinstance(g, SM.Intersect):
            geom = geom + tuple((type(q).__name__, q.radius, q.height) for q in (g.primitive_a, g.primitive_b))
        mat = g.material
        sp = self.uni.rs.Spectrum(400.0, 500.0, 2)
        try:
            mat.emission_function(rs_model.Point3D(x, y, z), dr, sp, self.world, None, g, None, None)
        except Exception as e:
            return ('raises', type(e).__name__, dens, geom)
        lines = []
        for m in mat._models:
            ls = getattr(m, '_lineshape', None)
            lines.append((type(m).__name__, [c[0] for c in (ls.calls[-1:] if ls is not None else [])]))
        return ('spectrum', dens, geom, lines, mat.integrator)


def _flat(v):
    out = []
    if isinstance(v, (tuple, list)):
        for q in v:
            out += _flat(q)
    else:
        out.append(v)
    return out


def _compare(ex, a, b):
    """(verdict, differs): structural comparison of two observations; numeric leaves that are not the very same term are left to the solver.
    verdict is False for a structural mismatch, else the conjunction of the remaining numeric equalities"""
    fa, fb = _flat(a), _flat(b)
    if len(fa) != len(fb):
        return False, True
    conds = []
    for x, y in zip(fa, fb):
        if core.is_sym(x) or core.is_sym(y):
            if ex.sym and core.lift_real(x).eq(core.lift_real(y)):
                continue
            conds.append(ex.eq(x, y))
        elif isinstance(x, float) and isinstance(y, float):
            if not ex.eq(x, y):
                return False, True
        elif isinstance(x, (str, int, type(None))) or isinstance(y, (str, int, type(None))):
            if x != y:
                return False, True
        elif x is not y:
            return False, True
    if not conds:
        return True, False
    return ex.all(conds), True


BEAM_OPS = ['energy', 'power', 'temperature', 'sigma', 'divergence_x', 'divergence_y', 'length', 'atomic_data', 'attenuator', 'attenuator.step', 'attenuator.clamp_sigma',
            'models.set', 'models.add', 'models.clear+set', 'integrator', 'transform', 'detach+attach', 'plasma.composition', 'plasma.electron_distribution',
            'plasma.b_field', 'plasma.transform']


# quick tier: every single change, plus the pairs (re-set something that re-configures the attenuator / models, then change what their caches depend on)
BEAM_RESET_OPS = ['atomic_data', 'attenuator', 'models.set', 'plasma.composition', 'transform']
BEAM_PROBE_OPS = ['energy', 'transform', 'plasma.transform', 'plasma.electron_distribution']


@harness('C01', name='beam_history', universe=_beam_universe,
         tiers={'quick': [{'op1': o, 'depth': 1} for o in BEAM_OPS] + [{'op1': a, 'depth': 2, 'op2': b} for a in BEAM_RESET_OPS for b in BEAM_PROBE_OPS],
                'thorough': [{'op1': o, 'depth': 2} for o in BEAM_OPS]},
         functions=['cherab.core.beam.node.Beam', 'cherab.core.beam.node.ModelManager', 'cherab.core.beam.model.BeamModel', 'cherab.core.beam.model.BeamAttenuator',
                    'cherab.core.beam.material.BeamMaterial', ATT + '.SingleRayAttenuator', MB + 'charge_exchange.BeamCXLine', MB + 'beam_emission.BeamEmissionLine',
                    'cherab.core.plasma.node.Plasma', 'cherab.core.utility.notify.Notifier'],
         cover=['history-explored'],
         bounds={'history': 'build -> [observe] -> op1 (-> [observe] -> op2 in the thorough tier) -> observe; op1 concrete per job; the quick tier adds 20 concrete pairs (re-configuring change, then a '
                            'change the caches depend on); in the thorough tier op2 is a symbolic choice over all 21 beam / attenuator / plasma mutators; interleaved observations symbolic',
                 'values': 'new energies, powers, widths, divergences, providers, plasma profiles (uninterpreted functions of position), transforms (translations) are fresh '
                           'symbolic objects; beam length 1 m <-> 2 m, sigma 0.1 <-> 0.2, divergences 0.5 <-> 2 deg, attenuator step 0.5 <-> 0.25 (concrete); observation at a symbolic (x, y), z = 0.4 m'},
         stubs=['raysect scene graph: transcription (symx/scene_model.py) with Python-level _modified() dispatch as compiled (C-only methods are not reached)',
                'line shapes: recording stubs', 'rates: uninterpreted functions tagged by provider and request', 'scipy cumulative_trapezoid / raysect linear interpolator: exact models'],
         outside=['ray tracing through the bounding primitive: the primitive kind and its radius / height are part of the observation instead', 'rotated placements',
                  'laser nodes and Thomson scattering (not encoded)', 'histories longer than the stated depth'])
def beam_history(ex, uni, op1, depth, op2=None):
    ex.div_policy = 'total'
    MATH.light = True      # exp / sqrt / tan are plain uninterpreted functions here: the comparison needs functional consistency only
    gen = [0]
    live = BeamScene(ex, uni, gen=gen)
    x, y = ex.real('x'), ex.real('y')
    z = 0.4
    dr = rs_model.Vector3D(ex.real('dx'), ex.real('dy'), ex.real('dz'))
    ops = [op1, op2] if op2 is not None else [op1] + [ex.choice('op%d' % k, BEAM_OPS) for k in range(2, depth + 1)]
    trace = []
    for k, op in enumerate(ops):
        if bool(ex.bool('observe_before_op%d' % (k + 1))):
            live.observe(x, y, z, dr)
            trace.append('observe')
        live.apply(op)
        trace.append(op)
    got = live.observe(x, y, z, dr)
    fresh = BeamScene(ex, uni, cfg=live.cfg, gen=gen)
    want = fresh.observe(x, y, z, dr)
    ex.cover('history-explored')
    ex.cover('observed:' + str(got[0]))
    hist = {'history': trace}
    if got[0] != want[0] or got[0] != 'spectrum':
        v, d = _compare(ex, got, want)
        ex.prove(v, 'observation-after-history==observation-of-a-scene-built-from-scratch', info=hist, sat_first=d)
    else:
        for k, label in ((1, 'beam-density'), (2, 'bounding-geometry'), (3, 'emission'), (4, 'integrator')):
            v, d = _compare(ex, got[k], want[k])
            ex.prove(v, label + '-after-history==same-in-a-scene-built-from-scratch', info=hist, sat_first=d)
    ex.sample(hist)


# ================================================================================================ laser side
class _Profile:
    """LaserProfile stand-in: notifier, generated geometry (two cylinder segments), energy density = uninterpreted function tagged by version"""
    def __init__(self, ex, tag, nseg=2):
        from cherab.core.utility.notify import Notifier
        self.ex, self.tag, self.nseg = ex, tag, nseg
        self.notifier = Notifier()

    def generate_geometry(self):
        return [SM.Cylinder(0.01, 1.0, transform=translate(0.0, 0.0, float(k)), name='segment %d of %s' % (k, self.tag)) for k in range(self.nseg)]

    def get_energy_density(self, x, y, z):
        return self.ex.uf('E_' + self.tag, x, y, z)


class _LSpectrum:
    def __init__(self, ex, tag):
        self.ex, self.tag = ex, tag


def _laser_universe():
    stubs = dict(SM.STUBS)
    stubs.update({'hydrogen': H, 'deuterium': D_, 'tritium': T_, 'Element': W.El, 'LaserProfile': _Profile, 'LaserSpectrum': _LSpectrum})
    return Universe(stubs=stubs)


class LaserScene:
    def __init__(self, ex, uni, cfg=None, gen=None):
        self.ex, self.uni = ex, uni
        self.mutator_errors = []
        self.lnode = uni.load('cherab.core.laser.node')
        self.lmodel = uni.load('cherab.core.laser.model')
        self.pnode = uni.load('cherab.core.plasma.node')
        self.gen = gen if gen is not None else [0]
        self.world = SM.World()
        self.cfg = dict(cfg) if cfg is not None else self.initial_cfg()
        self.build()

    def fresh(self, kind):
        self.gen[0] += 1
        k = self.gen[0]
        ex = self.ex
        if kind == 'profile':
            return _Profile(ex, 'prof%d' % k, nseg=2 + (k % 2))
        if kind == 'spectrum':
            return _LSpectrum(ex, 'spec%d' % k)
        if kind == 'edist':
            return PosDist(ex, 'e_v%d' % k)
        if kind in ('transform', 'ptransform'):
            return translate(ex.real('tx_v%d' % k), ex.real('ty_v%d' % k), ex.real('tz_v%d' % k))
        if kind == 'integrator':
            return SM.NumericalIntegrator(step=0.001 * k)
        if kind == 'importance':
            return float(k)
        raise KeyError(kind)

    def initial_cfg(self):
        c = {k: self.fresh(k) for k in ('profile', 'spectrum', 'edist', 'integrator', 'importance')}
        c.update({'transform': None, 'ptransform': None, 'models': ['m1', 'm2'], 'plasma_version': 1})
        return c

    def new_models(self, kinds):
        Base = self.lmodel.LaserModel
        ex = self.ex

        class RecModel(Base):
            """laser model: emission = uninterpreted function of the electron density at the plasma point, the laser energy density at the
            laser point and the spectrum in use (what Thomson scattering depends on)"""
            def __init__(s, tag):
                Base.__init__(s)
                s.tag = tag

            def emission(s, point_plasma, observation_plasma, point_laser, observation_laser, spectrum):
                ne = s._plasma.electron_distribution.density(point_plasma.x, point_plasma.y, point_plasma.z)
                en = s._laser_profile.get_energy_density(point_laser.x, point_laser.y, point_laser.z)
                v = ex.uf('scatter_%s_%s' % (s.tag, s._laser_spectrum.tag), ne, en, observation_plasma.x, observation_laser.x)
                spectrum.samples[0] = spectrum.samples[0] + v
                return spectrum
        return [RecModel(k) for k in kinds]

    def make_plasma(self):
        c = self.cfg
        p = self.pnode.Plasma(parent=self.world, transform=c['ptransform'])
        p.electron_distribution = c['edist']
        return p

    def build(self):
        c = self.cfg
        self.plasma = self.make_plasma()
        l = self.laser = self.lnode.Laser(parent=self.world, transform=c['transform'])
        l.integrator = c['integrator']
        l.importance = c['importance']
        l.plasma = self.plasma
        l.laser_profile = c['profile']
        l.laser_spectrum = c['spectrum']
        if c['models']:
            l.models = self.new_models(c['models'])

    def apply(self, op):
        l, c = self.laser, self.cfg
        if op == 'laser_profile':
            c['profile'] = self.fresh('profile')
            l.laser_profile = c['profile']
        elif op == 'profile.notify':
            # the profile object itself changes (its setters notify): new energy density, same object
            self.gen[0] += 1
            c['profile'].tag = c['profile'].tag + '_m%d' % self.gen[0]
            c['profile'].notifier.notify()
        elif op == 'laser_spectrum':
            c['spectrum'] = self.fresh('spectrum')
            l.laser_spectrum = c['spectrum']
        elif op == 'plasma':
            c['edist'] = self.fresh('edist')
            self.plasma = self.make_plasma()
            l.plasma = self.plasma
        elif op == 'plasma.electron_distribution':
            c['edist'] = self.fresh('edist')
            self.plasma.electron_distribution = c['edist']
        elif op == 'plasma.transform':
            c['ptransform'] = self.fresh('ptransform')
            self.plasma.transform = c['ptransform']
        elif op == 'models.set':
            c['models'] = ['m3']
            l.models = self.new_models(c['models'])
        elif op == 'models.clear':
            c['models'] = []
            l.models = []
        elif op == 'integrator':
            c['integrator'] = self.fresh('integrator')
            try:
                l.integrator = c['integrator']
            except AttributeError as e:
                self.mutator_errors.append('integrator setter: ' + type(e).__name__)
        elif op == 'importance':
            c['importance'] = self.fresh('importance')
            l.importance = c['importance']
        elif op == 'transform':
            c['transform'] = self.fresh('transform')
            l.transform = c['transform']
        elif op == 'detach+attach':
            l.parent = None
            l.parent = self.world
        else:
            raise KeyError(op)

    def observe(self, pt, dr):
        """per laser segment: what the segment's material emits at a point given in the segment's coordinates"""
        l = self.laser
        out = []
        segs = list(l.children)
        for g in segs:
            mat = g.material
            if type(mat) is SM.Material:
                out.append(('segment', g.height, g.radius, 'no-emitter'))
                continue
            mat.primitives = [g]
            sp = self.uni.rs.Spectrum(400.0, 500.0, 2)
            try:
                mat.emission_function(pt, dr, sp, self.world, None, g, None, None)
                val = sp.samples[0]
            except Exception as e:
                val = 'raises:' + type(e).__name__
            out.append(('segment', g.height, g.radius, val, mat.integrator, mat.importance, len(mat._models)))
        return ('laser', len(segs), out)


LASER_OPS = ['laser_profile', 'profile.notify', 'laser_spectrum', 'plasma', 'plasma.electron_distribution', 'plasma.transform', 'models.set', 'models.clear', 'integrator',
             'importance', 'transform', 'detach+attach']


@harness('C01', name='laser_history', universe=_laser_universe,
         tiers={'quick': [{'op1': o, 'depth': 2} for o in LASER_OPS], 'thorough': [{'op1': o, 'depth': 3} for o in LASER_OPS]},
         functions=['cherab.core.laser.node.Laser', 'cherab.core.laser.node.ModelManager', 'cherab.core.laser.material.LaserMaterial', 'cherab.core.laser.model.LaserModel',
                    'cherab.core.plasma.node.Plasma', 'cherab.core.utility.notify.Notifier'],
         cover=['history-explored'],
         bounds={'history': 'build -> [observe] -> op1 -> [observe] -> op2 (-> [observe] -> op3, thorough) -> observe over the 12 laser / profile / plasma mutators; op1 concrete per '
                            'job, later ops and observations symbolic choices', 'values': 'profiles (2 or 3 segments), spectra, electron distributions, transforms (translations) fresh '
                            'symbolic objects; observation point symbolic in segment coordinates'},
         stubs=['raysect scene graph: transcription', 'LaserProfile / LaserSpectrum: stand-ins (notifier, generated cylinder segments, uninterpreted energy density)',
                'laser model: recording subclass of the real LaserModel whose emission is an uninterpreted function of n_e(plasma point), energy density(laser point) and the '
                'spectrum in use'],
         outside=['the Thomson-scattering formula of SeldenMatobaThomsonSpectrum (it holds no derived state)', 'real laser profiles\' geometry generation', 'ray tracing'])
def laser_history(ex, uni, op1, depth):
    MATH.light = True
    gen = [0]
    live = LaserScene(ex, uni, gen=gen)
    pt = rs_model.Point3D(ex.real('px'), ex.real('py'), ex.real('pz'))
    dr = rs_model.Vector3D(ex.real('dx'), ex.real('dy'), ex.real('dz'))
    ops = [op1] + [ex.choice('op%d' % k, LASER_OPS) for k in range(2, depth + 1)]
    trace = []
    for k, op in enumerate(ops):
        if bool(ex.bool('observe_before_op%d' % (k + 1))):
            live.observe(pt, dr)
            trace.append('observe')
        live.apply(op)
        trace.append(op)
    got = live.observe(pt, dr)
    fresh = LaserScene(ex, uni, cfg=live.cfg, gen=gen)
    want = fresh.observe(pt, dr)
    ex.cover('history-explored')
    v, d = _compare(ex, got, want)
    ex.prove(v, 'laser-observation-after-history==observation-of-a-scene-built-from-scratch', info={'history': trace}, sat_first=d)
    ex.prove(not live.mutator_errors and not fresh.mutator_errors, 'laser-mutators-accepted-in-any-order', info={'history': trace, 'errors': live.mutator_errors + fresh.mutator_errors})
    ex.sample({'history': trace})

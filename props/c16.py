"""C16 — spectroscopic instruments: settings follow parameters, calibration conserves the spectrum (run from source)."""
import numpy as np

from symx.harness import harness
from symx import core, rs_model
from symx.universe import Universe

SPEC = 'cherab.tools.spectroscopy.spectrometer'
POLY = 'cherab.tools.spectroscopy.polychromator'


class _ISF:
    """stand-in for raysect InterpolatedSF (records the sampled points)"""
    def __init__(self, wavelengths, samples, normalise=False):
        self.isf_wavelengths, self.isf_samples, self.isf_normalise = wavelengths, samples, normalise


def _universe():
    return Universe(stubs={'InterpolatedSF': _ISF})


def _deep_eq(ex, a, b, path='', out=None):
    """conditions for structural equality of two observation trees; returns (conds, structural_mismatch)"""
    out = [] if out is None else out
    if isinstance(a, dict) and isinstance(b, dict):
        if sorted(a) != sorted(b):
            out.append(False)
            return out
        for k in a:
            _deep_eq(ex, a[k], b[k], path + '.' + str(k), out)
    elif isinstance(a, (list, tuple, np.ndarray)) and isinstance(b, (list, tuple, np.ndarray)):
        if len(a) != len(b):
            out.append(False)
            return out
        for x, y in zip(a, b):
            _deep_eq(ex, x, y, path, out)
    elif core.is_sym(a) or core.is_sym(b) or isinstance(a, (int, float, np.floating, np.integer)) and not isinstance(a, bool):
        if a is None or b is None:
            out.append(a is b)
        else:
            out.append(ex.eq(a, b))
    else:
        out.append(a == b)
    return out


def _pipes(inst):
    ps = inst.create_pipelines()
    return [(type(p).__name__, p.name, getattr(getattr(p, 'filter', None), 'name', None)) for p in ps]


def _observe_spectrometer(inst):
    return {
        'min_wavelength': inst.min_wavelength, 'max_wavelength': inst.max_wavelength, 'spectral_bins': inst.spectral_bins,
        'wavelengths': [list(w) for w in inst.wavelengths],
        'wavelength_to_pixel': [list(w) for w in inst.wavelength_to_pixel],
        'pipeline_classes': [c.__name__ for c in inst.pipeline_classes],
        'pipeline_kwargs': [dict(k) for k in inst.pipeline_kwargs],
        'pipelines': _pipes(inst), 'min_bins_per_pixel': inst.min_bins_per_pixel, 'name': inst.name,
    }


def _edges(ex, tag, n):
    """monotone pixel-edge array with n pixels: first edge and positive widths are the primitives"""
    e0 = ex.real(tag + '_e0', pos=True)
    ws = [ex.real('%s_w%d' % (tag, i), pos=True) for i in range(n)]
    edges = [e0]
    for w in ws:
        edges.append(edges[-1] + w)
    return edges, ws


def _check_settings(ex, inst, edge_sets, width_sets, mbpp, tag):
    mn, mx, bins = inst.min_wavelength, inst.max_wavelength, inst.spectral_bins
    conds = []
    for edges in edge_sets:
        for e in edges:
            conds += [ex.le(mn, e), ex.le(e, mx)]
    ex.prove(ex.all(conds), tag + 'range-covers-every-pixel')
    ex.prove(ex.any([ex.eq(mn, edges[0]) for edges in edge_sets]), tag + 'min-is-a-first-edge')
    ex.prove(ex.any([ex.eq(mx, edges[-1]) for edges in edge_sets]), tag + 'max-is-a-last-edge')
    # bin width (max-min)/bins never exceeds the narrowest pixel / min_bins_per_pixel
    ex.prove(bins >= 1, tag + 'at-least-one-bin')
    for ws in width_sets:
        for w in ws:
            ex.prove(ex.le((mx - mn) * mbpp, w * bins), tag + 'bin-width<=narrowest-pixel/min_bins_per_pixel')
    for edges, centres in zip(edge_sets, inst.wavelengths):
        ex.prove(ex.all([ex.eq(centres[i], 0.5 * (edges[i] + edges[i + 1])) for i in range(len(edges) - 1)]), tag + 'pixel-centres')


LAYOUTS_Q = [(1,), (2,), (1, 2)]
LAYOUTS_T = LAYOUTS_Q + [(3,), (2, 2), (1, 1, 2)]


@harness('C16', name='spectrometer', universe=_universe,
         tiers={'quick': [{'layout': l} for l in LAYOUTS_Q], 'thorough': [{'layout': l} for l in LAYOUTS_T]},
         functions=[SPEC + '.Spectrometer', 'cherab.tools.spectroscopy.instrument.SpectroscopicInstrument'],
         cover=['settings-checked', 'setter-applied', 'calibrated'],
         bounds={'layout': 'number of pixels per accommodated spectrum concrete per job', 'values': 'pixel edges (monotone), '
                 'min_bins_per_pixel (1..3), spectrum integrals symbolic; one setter, caches filled or not (symbolic choice)'},
         stubs=['raysect Spectrum.integrate: uninterpreted function of its limits', 'numpy: object arrays'],
         outside=['raysect Spectrum.integrate itself', 'floating-point rounding'])
def spectrometer(ex, uni, layout):
    mod = uni.load(SPEC)
    layout = tuple(layout)
    which = ex.choice('setter', ['wavelength_to_pixel', 'min_bins_per_pixel', 'name'])
    new_int = int(ex.int('new_min_bins', 1, 3))
    E, W = [], []
    for k, n in enumerate(layout):
        e, w = _edges(ex, 's%d' % k, n)
        E.append(e)
        W.append(w)
    mbpp = int(ex.int('min_bins_per_pixel', 1, 3))
    inst = mod.Spectrometer([list(e) for e in E], min_bins_per_pixel=mbpp, name='spec')
    _check_settings(ex, inst, E, W, mbpp, '')
    ex.cover('settings-checked')
    # calibration conserves the integral over each pixel
    class Sp(rs_model.Spectrum):
        def integrate(self_, a, b):
            return ex.uf('integral', a, b)
    lo = ex.real('sp_min', pos=True)
    hi = ex.real('sp_max', pos=True)
    ex.assume(lo < hi)
    sp = Sp(lo, hi, 4)
    covers = ex.all([lo <= inst.min_wavelength, hi >= inst.max_wavelength])
    try:
        cal = inst.calibrate(sp)
        raised = False
    except ValueError:
        raised = True
    ex.prove(ex.not_(covers) if raised else covers, 'calibrate-raises-iff-spectrum-is-narrower')
    if not raised:
        ex.cover('calibrated')
        ex.prove(len(cal) == len(layout) and all(len(c) == n for c, n in zip(cal, layout)), 'calibrated-shapes')
        for c, e in zip(cal, E):
            for i in range(len(e) - 1):
                ex.prove(ex.eq(c[i] * (e[i + 1] - e[i]), ex.uf('integral', e[i], e[i + 1])), 'calibrated-value*width==integral-over-pixel')
    # one-step setter induction: caches filled above; choose a setter
    E2, W2, mb2, name2 = E, W, mbpp, 'spec'
    if which == 'wavelength_to_pixel':
        E2, W2 = [], []
        for k, n in enumerate(layout[::-1]):
            e, w = _edges(ex, 'n%d' % k, n)
            E2.append(e)
            W2.append(w)
        inst.wavelength_to_pixel = [list(e) for e in E2]
    elif which == 'min_bins_per_pixel':
        mb2 = new_int
        inst.min_bins_per_pixel = mb2
    else:
        name2 = 'renamed'
        inst.name = name2
    ex.cover('setter-applied')
    fresh = mod.Spectrometer([list(e) for e in E2], min_bins_per_pixel=mb2, name=name2)
    ex.prove(ex.all(_deep_eq(ex, _observe_spectrometer(inst), _observe_spectrometer(fresh))), which + '=:same-as-freshly-constructed')
    _check_settings(ex, inst, E2, W2, mb2, which + '=:')
    ex.sample({'layout': list(layout), 'setter': which})


CT_PARAMS = ['diffraction_order', 'grating', 'focal_length', 'pixel_spacing', 'diffraction_angle', 'accommodated_spectra',
             'min_bins_per_pixel', 'name']


def _observe_ct(inst):
    d = _observe_spectrometer(inst)
    d.update(grating=inst.grating, focal_length=inst.focal_length, pixel_spacing=inst.pixel_spacing,
             diffraction_order=inst.diffraction_order, diffraction_angle=inst.diffraction_angle,
             accommodated=[(a, b) for a, b in inst.accommodated_spectra])
    return d


@harness('C16', name='czerny_turner', universe=_universe,
         tiers={'quick': [{'pixels': p} for p in ((1,), (2,))], 'thorough': [{'pixels': p} for p in ((1,), (2,), (1, 2), (3,))]},
         functions=[SPEC + '.CzernyTurnerSpectrometer'], cover=['constructed', 'setter-applied'],
         bounds={'pixels': 'pixels per accommodated spectrum concrete per job', 'values': 'grating, focal length, pixel spacing, angle, '
                 'start wavelengths symbolic positive reals; diffraction order 1..2; one setter'},
         stubs=['cos/tan/sqrt: uninterpreted / root variables (both objects evaluate the same expressions)'],
         outside=['the optical dispersion formula itself (only its consistent use is checked)', 'floating-point rounding'])
def czerny_turner(ex, uni, pixels):
    mod = uni.load(SPEC)
    pixels = tuple(pixels)
    which = ex.choice('setter', CT_PARAMS)       # discrete choices first (while the path condition is still linear)
    new_int = int(ex.int('new_int', 1, 2))
    P = dict(diffraction_order=int(ex.int('order', 1, 2)), grating=ex.real('grating', pos=True), focal_length=ex.real('focal_length', pos=True),
             pixel_spacing=ex.real('pixel_spacing', pos=True), diffraction_angle=ex.real('angle', pos=True),
             accommodated_spectra=[(ex.real('start_%d' % k, pos=True), n) for k, n in enumerate(pixels)],
             min_bins_per_pixel=int(ex.int('min_bins_per_pixel', 1, 2)), name='ct')
    inst = mod.CzernyTurnerSpectrometer(**P)
    ex.cover('constructed')
    # every observable of a freshly constructed instrument is available (pipeline settings included)
    try:
        o0 = _observe_ct(inst)
        ok = True
    except AttributeError as e:
        ok = False
        ex.prove(False, 'fresh-instrument:all-settings-available', info=str(e))
    if ok:
        ex.prove(True, 'fresh-instrument:all-settings-available')
        ex.prove(o0['pipeline_classes'] == ['SpectralRadiancePipeline0D'] and o0['pipeline_kwargs'] == [{'name': 'ct'}], 'fresh-instrument:pipeline-settings')
        for (start, n), edges in zip(P['accommodated_spectra'], inst.wavelength_to_pixel):
            conds = [ex.eq(edges[0], start), len(edges) == n + 1]
            for i in range(n):
                conds.append(ex.eq(edges[i + 1], edges[i] + inst.resolution(edges[i])))
            ex.prove(ex.all(conds), 'pixel-edges-follow-the-dispersion-step')
    P2 = dict(P)
    if which == 'diffraction_order':
        P2[which] = new_int
    elif which == 'min_bins_per_pixel':
        P2[which] = new_int
    elif which == 'name':
        P2[which] = 'renamed'
    elif which == 'accommodated_spectra':
        P2[which] = [(ex.real('nstart_%d' % k, pos=True), n) for k, n in enumerate(pixels[::-1])]
    else:
        P2[which] = ex.real('new_value', pos=True)
    setattr(inst, which, P2[which])
    ex.cover('setter-applied')
    fresh = mod.CzernyTurnerSpectrometer(**P2)
    try:
        a, b = _observe_ct(inst), _observe_ct(fresh)
    except AttributeError as e:
        ex.prove(False, which + '=:all-settings-available', info=str(e))
        return
    ex.prove(ex.all(_deep_eq(ex, a, b)), which + '=:same-as-freshly-constructed')
    ex.sample({'pixels': list(pixels), 'setter': which})


def _observe_poly(inst):
    return {
        'min_wavelength': inst.min_wavelength, 'max_wavelength': inst.max_wavelength, 'spectral_bins': inst.spectral_bins,
        'pipeline_classes': [c.__name__ for c in inst.pipeline_classes],
        'pipeline_kwargs': [{'name': k['name'], 'filter': id(k['filter'])} for k in inst.pipeline_kwargs],
        'min_bins_per_window': inst.min_bins_per_window, 'name': inst.name, 'n_filters': len(inst.filters),
    }


@harness('C16', name='polychromator', universe=_universe,
         tiers={'quick': [{'nf': n} for n in (1, 2)], 'thorough': [{'nf': n} for n in (1, 2, 3)]},
         functions=[POLY + '.Polychromator', POLY + '.TrapezoidalFilter', POLY + '.PolychromatorFilter'],
         cover=['constructed', 'setter-applied'],
         bounds={'filters': 'number of trapezoidal filters concrete per job', 'values': 'central wavelengths, windows, flat tops symbolic; '
                 'min_bins_per_window 1..3; one setter'},
         stubs=['raysect InterpolatedSF: recording stub; RadiancePipeline0D: real class'], outside=['floating-point rounding'])
def polychromator(ex, uni, nf):
    mod = uni.load(POLY)
    which = ex.choice('setter', ['filters', 'min_bins_per_window', 'name'])
    new_int = int(ex.int('new_min_bins', 1, 3))

    def mk_filters(tag, n):
        fs, info = [], []
        for k in range(n):
            c = ex.real('%s_c%d' % (tag, k), pos=True)
            w = ex.real('%s_w%d' % (tag, k), pos=True)
            ft = ex.real('%s_ft%d' % (tag, k), pos=True)
            ex.assume(ft <= w)
            ex.assume(c - 0.5 * w > 0)
            fs.append(mod.TrapezoidalFilter(c, w, ft, name='%s%d' % (tag, k)))
            info.append((c, w, ft))
        return fs, info
    fs, info = mk_filters('f', nf)
    for f, (c, w, ft) in zip(fs, info):
        ex.prove(ex.all([ex.eq(f.min_wavelength, c - 0.5 * w), ex.eq(f.max_wavelength, c + 0.5 * w), ex.eq(f.window, w),
                         ex.eq(f.central_wavelength, c), ex.eq(f.flat_top, ft)]), 'filter-reports-its-parameters')
    mb = int(ex.int('min_bins_per_window', 1, 3))
    inst = mod.Polychromator(fs, min_bins_per_window=mb, name='poly')
    ex.cover('constructed')

    def check(inst_, info_, mb_, tag):
        mn, mx, bins = inst_.min_wavelength, inst_.max_wavelength, inst_.spectral_bins
        conds = []
        for (c, w, ft) in info_:
            conds += [ex.le(mn, c - 0.5 * w), ex.le(c + 0.5 * w, mx)]
        ex.prove(ex.all(conds), tag + 'range-covers-every-filter')
        for (c, w, ft) in info_:
            ex.prove(ex.le((mx - mn) * mb_, w * bins), tag + 'bin-width<=narrowest-window/min_bins_per_window')
        ex.prove(len(inst_.pipeline_classes) == len(info_) and len(inst_.pipeline_kwargs) == len(info_) and
                 all(k['filter'] is f for k, f in zip(inst_.pipeline_kwargs, inst_.filters)) and
                 all(k['name'] == inst_.name + ': ' + f.name for k, f in zip(inst_.pipeline_kwargs, inst_.filters)),
                 tag + 'one-pipeline-per-filter-with-that-filter')
    check(inst, info, mb, '')
    fs2, info2, mb2, name2 = fs, info, mb, 'poly'
    if which == 'filters':
        fs2, info2 = mk_filters('g', 3 - nf if nf < 3 else 1)
        inst.filters = fs2
    elif which == 'min_bins_per_window':
        mb2 = new_int
        inst.min_bins_per_window = mb2
    else:
        name2 = 'renamed'
        inst.name = name2
    ex.cover('setter-applied')
    fresh = mod.Polychromator(fs2, min_bins_per_window=mb2, name=name2)
    ex.prove(ex.all(_deep_eq(ex, _observe_poly(inst), _observe_poly(fresh))), which + '=:same-as-freshly-constructed')
    check(inst, info2, mb2, which + '=:')
    ex.sample({'filters': nf, 'setter': which})

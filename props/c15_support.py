"""Support code imported by the generated CrossHair contract modules of C15 (observer groups).

The group classes are the real, imported cherab classes.  Members are Python subclasses of the real raysect observer
types whose broadcast attributes are shadowed by plain Python storage, so CrossHair's symbolic ints can be stored in them
(the raysect C setters would realise the values).
"""
import importlib

from raysect.core import Node
from raysect.core.workflow import RenderEngine, SerialEngine

GROUPS = {
    'SightLineGroup': ('cherab.tools.observers.group.sightline', 'raysect.optical.observer', 'SightLine'),
    'FibreOpticGroup': ('cherab.tools.observers.group.fibreoptic', 'raysect.optical.observer', 'FibreOptic'),
    'PixelGroup': ('cherab.tools.observers.group.pixel', 'raysect.optical.observer', 'Pixel'),
    'TargettedPixelGroup': ('cherab.tools.observers.group.targettedpixel', 'raysect.optical.observer', 'TargettedPixel'),
    'SpectroscopicSightLineGroup': ('cherab.tools.observers.group.spectroscopic', 'cherab.tools.observers.spectroscopy', 'SpectroscopicSightLine'),
    'SpectroscopicFibreOpticGroup': ('cherab.tools.observers.group.spectroscopic', 'cherab.tools.observers.spectroscopy', 'SpectroscopicFibreOptic'),
}

# import everything now (CrossHair forbids side effects such as matplotlib's config-dir creation while it explores)
for _g, (_m, _o, _n) in GROUPS.items():
    importlib.import_module(_m)
    importlib.import_module(_o)
from raysect.primitive import Sphere  # noqa: E402

# group-level properties that are not per-member broadcasts
NOT_BROADCAST = {'observers', 'sight_lines', 'pipelines'}

ENGINES = [SerialEngine(), SerialEngine(), SerialEngine()]


def group_class(gname):
    mod, _, _ = GROUPS[gname]
    return getattr(importlib.import_module(mod), gname)


def broadcast_attributes(gname):
    """every property defined on the group class hierarchy (with or without setter) that stands for a member attribute"""
    G = group_class(gname)
    out = []
    for klass in G.__mro__:
        for k, v in vars(klass).items():
            if isinstance(v, property) and k not in NOT_BROADCAST and k not in out and not k.startswith('_'):
                out.append(k)
    return sorted(out)


def member_attr(attr):
    return 'name' if attr == 'names' else attr


_MEMBER_CACHE = {}


def member_class(gname):
    if gname in _MEMBER_CACHE:
        return _MEMBER_CACHE[gname]
    _, omod, oname = GROUPS[gname]
    base = getattr(importlib.import_module(omod), oname)
    ns = {'observe_calls': 0}

    def mk(slot):
        def fget(self):
            return self.__dict__.get(slot)

        def fset(self, v):
            self.__dict__[slot] = v
        return property(fget, fset)
    for a in broadcast_attributes(gname):
        ma = member_attr(a)
        ns[ma] = mk('_shadow_' + ma)

    def observe(self):
        self.__dict__['_observed'] = self.__dict__.get('_observed', 0) + 1
    ns['observe'] = observe
    M = type('Member' + oname, (base,), ns)
    _MEMBER_CACHE[gname] = M
    return M


def new_member(gname):
    M = member_class(gname)
    if 'TargettedPixel' in gname:
        return M(targets=[Sphere(0.1)])
    return M()


class Tok:
    """opaque stand-in for a primitive (targets)"""
    def __init__(self, v):
        self.v = v

    def __eq__(self, o):
        return isinstance(o, Tok) and o.v == self.v

    def __hash__(self):
        return 0


def to_value(attr, v):
    """map the symbolic int to a value the group setter accepts for this attribute"""
    if attr == 'render_engine':
        return ENGINES[1] if v > 0 else ENGINES[0]
    if attr == 'targets':
        return [Tok(v)]        # one pixel's value is a (non-empty) list of primitives
    return v


def broadcast_ok(gname, attr, n, mode, scalar, vals):
    """the C15 broadcast contract for one (group class, attribute); True = holds on this input"""
    G = group_class(gname)
    ma = member_attr(attr)
    members = [new_member(gname) for _ in range(n)]
    for k, m in enumerate(members):
        setattr(m, ma, to_value(attr, 7000 + k))
    g = G(observers=members)
    before = [getattr(m, ma) for m in members]
    desc = None
    for klass in G.__mro__:
        if attr in vars(klass):
            desc = vars(klass)[attr]
            break
    if not isinstance(desc, property) or desc.fset is None or desc.fget is None:
        return False            # the attribute cannot be assigned / read at group level
    if list(getattr(g, attr)) != before:
        return False            # reading returns the members' values in member order
    scalar_ok = attr != 'names'     # names accepts sequences only (documented)
    if mode == 0:
        value = to_value(attr, scalar)
        expect = [value] * n
    else:
        seq = [to_value(attr, v) for v in vals]
        value = seq if mode == 1 else tuple(seq)
        expect = seq
    try:
        setattr(g, attr, value)
    except ValueError:
        return mode != 0 and len(vals) != n and [getattr(m, ma) for m in members] == before
    except TypeError:
        return mode == 0 and not scalar_ok and [getattr(m, ma) for m in members] == before
    if mode == 0 and not scalar_ok:
        return False
    if mode != 0 and len(vals) != n:
        return False
    now = [getattr(m, ma) for m in members]
    if not (now == expect and list(getattr(g, attr)) == now):
        return False
    if n > 0:
        # "reading returns the members' *current* values": change one member directly (not through the group) and read again
        k = scalar % n
        fresh = to_value(attr, 9000 + k)
        setattr(members[k], ma, fresh)
        now[k] = fresh
        if list(getattr(g, attr)) != now:
            return False
    return True


def _group_with_members(gname, n, extra):
    G = group_class(gname)
    members = [new_member(gname) for _ in range(n)]
    for k, m in enumerate(members):
        m.name = 1000 + k           # shadowed: plain storage, unique
    g = G(observers=members[:extra])
    for m in members[extra:]:
        g.add_observer(m)
    return g, members


def index_ok(gname, n, idx, extra):
    """members (given at construction or added later) are retrievable by index; parent is the group"""
    g, members = _group_with_members(gname, n, extra)
    if len(g) != n or list(g.observers) != members:
        return False
    if any(m.parent is not g for m in members):
        return False
    try:
        got = g[idx]
        return (-n <= idx < n) and got is members[idx]
    except IndexError:
        return not (-n <= idx < n)


def slice_ok(gname, n, span):
    """every slice with bounds in [-span, span] (enumerated) of a group of symbolic size n"""
    g, members = _group_with_members(gname, n, n)
    for lo in range(-span, span + 1):
        for hi in range(-span, span + 1):
            if tuple(g[lo:hi]) != tuple(members[lo:hi]):
                return False
    return tuple(g[:]) == tuple(members)


def observe_ok(gname, n, extra):
    """observe() observes every member exactly once"""
    g, members = _group_with_members(gname, n, extra)
    g.observe()
    return all(m.__dict__.get('_observed', 0) == 1 for m in members)


def name_lookup_ok(gname, n, dup):
    G = group_class(gname)
    # real node names (strings) for the by-name lookup
    _, omod, oname = GROUPS[gname]
    base = getattr(importlib.import_module(omod), oname)

    def mk():
        if 'TargettedPixel' in gname:
                return base(targets=[Sphere(0.1)])
        return base()
    members = [mk() for _ in range(n)]
    for k, m in enumerate(members):
        m.name = 'obs%d' % (k if not (dup and k == n - 1 and n > 1) else 0)
    g = G(observers=members)
    for k, m in enumerate(members):
        nm = m.name
        cnt = sum(1 for x in members if x.name == nm)
        try:
            got = g[nm]
            if cnt != 1 or got is not m:
                return False
        except ValueError:
            if cnt == 1:
                return False
    try:
        g['no-such-name']
        return False
    except ValueError:
        pass
    # foreign observer type is rejected and changes nothing
    other = Node()
    try:
        g.add_observer(other)
        return False
    except (ValueError, TypeError):
        pass
    try:
        g.observers = members + [other]
        return False
    except (ValueError, TypeError):
        pass
    return list(g.observers) == members


def name_history_ok(gname, n, which, how, again):
    """members stay retrievable by their *current* unique names after any of: a direct rename of one member, a rename through
    group.names, replacing the member tuple (reversed) - each after earlier by-name lookups, optionally twice"""
    G = group_class(gname)
    _, omod, oname = GROUPS[gname]
    base = getattr(importlib.import_module(omod), oname)

    def mk():
        if 'TargettedPixel' in gname:
            return base(targets=[Sphere(0.1)])
        return base()
    members = [mk() for _ in range(n)]
    for k, m in enumerate(members):
        m.name = 'obs%d' % k
    g = G(observers=members)
    for m in members:               # earlier lookups (anything derived from the names is now filled in)
        if g[m.name] is not m:
            return False
    rounds = 2 if again else 1
    for r in range(rounds):
        k = (which + r) % n if n else 0
        new = 'renamed%d' % r
        if n == 0:
            break
        old = members[k].name
        if how == 0:
            members[k].name = new
        elif how == 1:
            names = [m.name for m in members]
            names[k] = new
            g.names = names
        elif how == 2:
            members = list(reversed(members))
            g.observers = members
            k = n - 1 - k
            members[k].name = new
        else:
            extra = mk()
            extra.name = 'extra%d' % r
            g.add_observer(extra)
            members = members + [extra]
            n = n + 1
            members[k].name = new
        if list(g.names) != [m.name for m in members] or list(g.observers) != members:
            return False
        for m in members:
            try:
                if g[m.name] is not m:
                    return False
            except ValueError:
                return False
        try:
            g[old]
            return False
        except ValueError:
            pass
    return True


def foreign_ok(gname, n):
    """only observers of the group's own type are accepted: an observer of every other group's member type (and a non-observer) is
    rejected with ValueError / TypeError by add_observer, by the constructor and by the observers setter (all enumerated), and the
    group of symbolic size n keeps exactly its members"""
    G = group_class(gname)
    own = getattr(importlib.import_module(GROUPS[gname][1]), GROUPS[gname][2])
    kinds = []
    for g2, (_m, omod, oname) in sorted(GROUPS.items()):
        cls = getattr(importlib.import_module(omod), oname)
        if not issubclass(cls, own) and not issubclass(own, cls) and cls not in kinds:
            kinds.append(cls)
    kinds.append(Sphere)
    g, members = _group_with_members(gname, n, n)
    for cls in kinds:
        for via in (0, 1, 2):
            if 'TargettedPixel' in cls.__name__:
                foreign = cls(targets=[Sphere(0.1)])
            elif cls is Sphere:
                foreign = Sphere(0.1)
            else:
                foreign = cls()
            try:
                if via == 0:
                    g.add_observer(foreign)
                elif via == 1:
                    G(observers=[foreign])
                else:
                    g.observers = list(members) + [foreign]
                return False
            except (ValueError, TypeError):
                pass
            if len(g) != n or list(g.observers) != members or foreign.parent is g:
                return False
    return True

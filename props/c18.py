"""C18 — laser profiles integrate to the pulse energy and track their parameters; laser spectra bin their density."""
import math
import random
import numpy as np

from symx.harness import harness
from symx import core, rs_model
from symx.core import MATH
from symx.universe import Universe

PROFILE = 'cherab.core.model.laser.profile'
SPECTRUM = 'cherab.core.model.laser.laserspectrum'
C_LIGHT = 299792458.0


class _Cyl:
    def __init__(self, radius=None, height=None, transform=None, name=None, **kw):
        self.radius, self.height, self.transform, self.name = radius, height, transform, name


def _translate(x, y, z):
    return ('translate', x, y, z)


def _universe():
    return Universe(stubs={'Cylinder': _Cyl, 'translate': _translate})


def _pdf(x, s):
    """normal pdf N(x; 0, s)"""
    return 1 / (s * math.sqrt(2 * math.pi)) * MATH.exp(-(x * x) / (2 * s * s))


PROFILES = {
    'UniformEnergyDensity': dict(params=['energy_density', 'laser_length', 'laser_radius'], setters=['energy_density', 'laser_length', 'laser_radius']),
    'ConstantBivariateGaussian': dict(params=['pulse_energy', 'pulse_length', 'laser_radius', 'laser_length', 'stddev_x', 'stddev_y'],
                                      setters=['pulse_energy', 'pulse_length', 'laser_radius', 'laser_length', 'stddev_x', 'stddev_y']),
    'TrivariateGaussian': dict(params=['pulse_energy', 'pulse_length', 'mean_z', 'laser_length', 'laser_radius', 'stddev_x', 'stddev_y'],
                               setters=['pulse_energy', 'pulse_length', 'mean_z', 'laser_length', 'laser_radius', 'stddev_x', 'stddev_y']),
    'GaussianBeamAxisymmetric': dict(params=['pulse_energy', 'pulse_length', 'laser_length', 'laser_radius', 'waist_z', 'stddev_waist', 'laser_wavelength'],
                                     setters=['pulse_energy', 'pulse_length', 'laser_length', 'laser_radius', 'waist_z', 'stddev_waist', 'laser_wavelength']),
}


def _closed_form(ex, cls, P, x, y, z):
    """documented energy density, written independently"""
    if cls == 'UniformEnergyDensity':
        return P['energy_density']
    if cls == 'ConstantBivariateGaussian':
        return P['pulse_energy'] / (C_LIGHT * P['pulse_length']) * (
            1 / (2 * math.pi * P['stddev_x'] * P['stddev_y']) * MATH.exp(x * x * (-1 / (2 * P['stddev_x'] * P['stddev_x'])) + y * y * (-1 / (2 * P['stddev_y'] * P['stddev_y']))))
    if cls == 'TrivariateGaussian':
        sz = P['pulse_length'] * C_LIGHT
        norm = 1 / (MATH.sqrt(core.sym_pow(2 * math.pi, 3) if False else (2 * math.pi) ** 3) * P['stddev_x'] * P['stddev_y'] * sz)
        dz = z - P['mean_z']
        return P['pulse_energy'] * (norm * MATH.exp(x * x * (-1 / (2 * P['stddev_x'] * P['stddev_x'])) + y * y * (-1 / (2 * P['stddev_y'] * P['stddev_y'])) + dz * dz * (-1 / (2 * sz * sz))))
    if cls == 'GaussianBeamAxisymmetric':
        s0sq = P['stddev_waist'] * P['stddev_waist']
        zr = 2 * math.pi * 1 * s0sq / P['laser_wavelength'] / 1e-9
        q = (z - P['waist_z']) / zr
        sz2 = s0sq * (1 + q * q)
        return P['pulse_energy'] / (C_LIGHT * P['pulse_length']) * (1 / (2 * math.pi * sz2) * MATH.exp((x * x + y * y) / (-2 * sz2)))
    raise KeyError(cls)


def _observe(ex, obj, pt):
    x, y, z = pt
    geo = obj.generate_geometry()
    pol = obj.get_polarization(x, y, z)
    return {
        'energy_density': obj.get_energy_density(x, y, z),
        'pol_x': pol.x, 'pol_y': pol.y, 'pol_z': pol.z,
        'n_segments': len(geo),
        'segments': [(g.radius, g.height, g.transform) for g in geo],
    }


def _same_obs(ex, a, b, label):
    ex.prove(ex.eq(a['energy_density'], b['energy_density']), label + ':energy-density')
    ex.prove(ex.all([ex.eq(a['pol_' + c], b['pol_' + c]) for c in 'xyz']), label + ':polarisation')
    ok = a['n_segments'] == b['n_segments']
    ex.prove(ok, label + ':segment-count')
    if ok:
        conds = []
        for (r1, h1, t1), (r2, h2, t2) in zip(a['segments'], b['segments']):
            conds += [ex.eq(r1, r2), ex.eq(h1, h2)]
            if t1 is None or t2 is None:
                conds.append(t1 is None and t2 is None)
            else:
                conds.append(ex.eq(t1[3], t2[3]))
        ex.prove(ex.all(conds), label + ':segment-geometry')


@harness('C18', name='profiles', universe=_universe,
         tiers={'quick': [{'cls': c} for c in PROFILES], 'thorough': [{'cls': c} for c in PROFILES]},
         functions=[PROFILE + '.' + c for c in PROFILES] + ['cherab.core.model.laser.math_functions.*', 'cherab.core.laser.profile.LaserProfile'],
         cover=['constructed', 'setter-applied'],
         bounds={'parameters': 'all profile parameters symbolic positive reals; one setter with a fresh symbolic value (one-step induction: '
                               'a freshly constructed object is the invariant)', 'geometry': 'length < 4 * 2 * radius (<= 4 segments)'},
         stubs=['raysect Function3D/Vector3D: models; Cylinder/translate: recording stubs; exp: uninterpreted with lemmas; sqrt: root variable'],
         outside=['cross-section integral of a normal pdf is 1 (stated lemma): the check shows the density is E/(c tau) times the '
                  'product of normal pdfs with the documented widths'])
def profiles(ex, uni, cls):
    mod = uni.load(PROFILE)
    K = getattr(mod, cls)
    spec = PROFILES[cls]
    P = {}
    for p in spec['params']:
        P[p] = ex.real(p) if p in ('mean_z', 'waist_z') else ex.real(p, pos=True)
    ex.assume(P['laser_length'] < 8 * P['laser_radius'], 'at most 4 laser segments')
    pt = (ex.real('x'), ex.real('y'), ex.real('z'))
    pol = rs_model.Vector3D(0.0, 1.0, 0.0)
    obj = K(polarization=pol, **P)
    ex.cover('constructed')
    o0 = _observe(ex, obj, pt)
    ex.prove(ex.eq(o0['energy_density'], _closed_form(ex, cls, P, *pt)), cls + ':energy-density==E/(c*tau)*product-of-normal-pdfs')
    for p in spec['params']:
        ex.prove(ex.eq(getattr(obj, p), P[p]), cls + ':reported-parameter==constructor-argument')
    # segments tile [0, length] exactly once
    segs = o0['segments']
    n = len(segs)
    tot = 0
    conds = []
    for i, (r, h, t) in enumerate(segs):
        z0 = 0 if t is None else t[3]
        conds.append(ex.eq(z0, tot))
        conds.append(ex.eq(r, P['laser_radius']))
        tot = tot + h
    conds.append(ex.eq(tot, P['laser_length']))
    ex.prove(ex.all(conds), cls + ':segments-tile-[0,length]-once')
    # one-step setter induction
    which = ex.choice('setter', spec['setters'])
    v = ex.real('new_value') if which in ('mean_z', 'waist_z') else ex.real('new_value', pos=True)
    if which == 'laser_length':
        ex.assume(v < 8 * P['laser_radius'])
    if which == 'laser_radius':
        ex.assume(P['laser_length'] < 8 * v)
    setattr(obj, which, v)
    ex.cover('setter-applied')
    P2 = dict(P)
    P2[which] = v
    fresh = K(polarization=pol, **P2)
    _same_obs(ex, _observe(ex, obj, pt), _observe(ex, fresh, pt), '%s.%s=:same-as-fresh' % (cls, which))
    for p in spec['params']:
        ex.prove(ex.eq(getattr(obj, p), P2[p]), '%s.%s=:reported-parameters' % (cls, which))
    ex.sample({'class': cls, 'setter': which, 'segments': n})


# ------------------------------------------------------------------------------------------------ spectra (real mode)
def _validate_spectra(uni, **kw):
    from cherab.core.model.laser import ConstantSpectrum, GaussianSpectrum
    mod = uni.load(SPECTRUM)
    n = 0
    for (mn, mx, b) in ((1000.0, 1002.0, 3), (500.5, 501.25, 4)):
        a, r = mod.ConstantSpectrum(mn, mx, b), ConstantSpectrum(mn, mx, b)
        g, rg = mod.GaussianSpectrum(mn, mx, b, (mn + mx) / 2, 0.3), GaussianSpectrum(mn, mx, b, (mn + mx) / 2, 0.3)
        for t, c in ((a, r), (g, rg)):
            if not np.allclose(np.array(t.power_spectral_density, dtype=float), c.power_spectral_density, rtol=1e-12) or \
                    not np.allclose(np.array(t.wavelengths, dtype=float), c.wavelengths, rtol=1e-15):
                raise core.HarnessError('translator validation failed (laser spectrum)')
            n += 1
    return n


@harness('C18', name='spectra', universe=_universe, validate=_validate_spectra,
         tiers={'quick': [{'cls': c, 'bins': b} for c in ('ConstantSpectrum', 'GaussianSpectrum') for b in (1, 2, 3)],
                'thorough': [{'cls': c, 'bins': b} for c in ('ConstantSpectrum', 'GaussianSpectrum') for b in (1, 2, 3, 4, 5, 6)]},
         functions=[SPECTRUM + '.ConstantSpectrum', SPECTRUM + '.GaussianSpectrum', 'cherab.core.laser.laserspectrum.LaserSpectrum'],
         cover=['binned', 'setter-applied'],
         bounds={'bins': 'concrete per job (new bin count after the bins setter: 1..3)', 'values': 'range, mean, stddev symbolic reals'},
         stubs=['erf/exp: uninterpreted with lemmas'], outside=['floating-point rounding (see constant_spectrum_double)'])
def spectra(ex, uni, cls, bins):
    mod = uni.load(SPECTRUM)
    mn = ex.real('min_wl', pos=True)
    dl = ex.real('delta_wl', pos=True)
    mx = mn + bins * dl
    gauss = cls == 'GaussianSpectrum'
    if gauss:
        mean = ex.real('mean', pos=True)
        sd = ex.real('stddev', pos=True)
        make = lambda a, b, n, m=None, s=None: mod.GaussianSpectrum(a, b, n, mean if m is None else m, sd if s is None else s)
    else:
        make = lambda a, b, n, m=None, s=None: mod.ConstantSpectrum(a, b, n)
    sp = make(mn, mx, bins)
    ex.cover('binned')

    def check(spc, a, b, n, m, s, tag):
        d = (b - a) / n
        ex.prove(ex.eq(spc.get_min_wavelenth(), a), tag + 'get_min_wavelength==min')
        ex.prove(ex.eq(spc.get_max_wavelenth(), b), tag + 'get_max_wavelength==max')
        ex.prove(ex.all([ex.eq(spc.min_wavelength, a), ex.eq(spc.max_wavelength, b)]), tag + 'min/max-properties')
        ex.prove(spc.get_spectral_bins() == n and spc.bins == n and len(spc.wavelengths) == n and len(spc.power_spectral_density) == n,
                 tag + 'bin-count')
        ex.prove(ex.all([ex.eq(spc.get_delta_wavelength(), d), ex.eq(spc.delta_wavelength, d)]), tag + 'delta==(max-min)/bins')
        tot = 0
        for i in range(n):
            lo_, hi_ = a + i * d, a + (i + 1) * d
            ex.prove(ex.eq(spc.wavelengths[i], a + (i + 0.5) * d), tag + 'bin-centres')
            if gauss:
                k = 1 / (s * math.sqrt(2.0))
                want = 0.5 * (MATH.erf((hi_ - m) * k) - MATH.erf((lo_ - m) * k))
            else:
                want = d / (b - a)
            ex.prove(ex.eq(spc.power_spectral_density[i] * d, want), tag + 'bin-power==integral-of-density-over-bin')
            ex.prove(ex.eq(spc.power_mv[i], spc.power_spectral_density[i] * d), tag + 'power==psd*delta')
            tot = tot + spc.power_mv[i]
        if not gauss:
            ex.prove(ex.eq(tot, 1), tag + 'total-power==1')
    check(sp, mn, mx, bins, mean if gauss else None, sd if gauss else None, '')
    # one-step setter induction (invariant: object == freshly constructed one)
    setters = ['min_wavelength', 'max_wavelength', 'bins'] + (['mean', 'stddev'] if gauss else [])
    which = ex.choice('setter', setters)
    a, b, n, m, s = mn, mx, bins, (mean if gauss else None), (sd if gauss else None)
    if which == 'bins':
        n = int(ex.int('new_bins', 1, 3))
        sp.bins = n
    else:
        v = ex.real('new_value', pos=True)
        if which == 'min_wavelength':
            ex.assume(v < mx)
            a = v
        elif which == 'max_wavelength':
            ex.assume(v > mn)
            b = v
        elif which == 'mean':
            m = v
        else:
            s = v
        setattr(sp, which, v)
    ex.cover('setter-applied')
    check(sp, a, b, n, m, s, which + '=:')
    ex.sample({'class': cls, 'bins': bins, 'setter': which})


# ------------------------------------------------------------------------------------------------ IEEE double mode
def _replay_const(model, label, bins):
    from cherab.core.model.laser import ConstantSpectrum
    mn = float(core.model_float(model['min_wl']))
    mx = float(core.model_float(model['max_wl']))
    sp = ConstantSpectrum(mn, mx, bins)
    pw = [float(p) * sp.delta_wavelength for p in sp.power_spectral_density]
    bad = [(i, p) for i, p in enumerate(pw) if abs(p * bins - 1.0) > 0.25]
    return {'reproduced': bool(bad), 'bin_powers': pw, 'min': repr(mn), 'max': repr(mx)}


@harness('C18', name='constant_spectrum_double', universe=_universe, replay_real=_replay_const,
         tiers={'quick': [{'bins': b} for b in (1, 2)], 'thorough': [{'bins': b} for b in (1, 2, 3)]}, timeout_ms=60000,
         functions=['cherab.core.laser.laserspectrum.LaserSpectrum._update_cache', SPECTRUM + '.ConstantSpectrum.evaluate'],
         cover=['binned'],
         bounds={'bins': 'concrete per job', 'values': 'every pair of finite doubles 1 <= min < max <= 1e4 with max - min >= 1e-3 (IEEE-754, RNE)'},
         stubs=[], outside=['an unsat verdict of the floating-point solver may not arrive within the time limit: reported as '
                            'inconclusive-FP in evidence, never as success of this obligation'])
def constant_spectrum_double(ex, uni, bins):
    mod = uni.load(SPECTRUM)
    mn = ex.double('min_wl')
    mx = ex.double('max_wl')
    ex.assume(mn >= 1.0)
    ex.assume(mx <= 1.0e4)
    ex.assume(mx - mn >= 1.0e-3)
    seen = []
    orig = mod.ConstantSpectrum.evaluate

    def evaluate(self, x):
        seen.append(x)
        return orig(self, x)
    mod.ConstantSpectrum.evaluate = evaluate
    ex.branch_ms = 10000
    try:
        sp = mod.ConstantSpectrum(mn, mx, bins)
    except ValueError as e:
        # only reachable on a branch side the solver could not rule out within its budget: must be infeasible
        ex.prove(False, 'valid-range-accepted', info=str(e)[:80], soft=True)
        return
    finally:
        mod.ConstantSpectrum.evaluate = orig
    ex.cover('binned')
    # the density is sampled at the bin edges: every edge must lie inside [min, max], otherwise the bin loses half its power
    for x in seen:
        ok = ex.all([mn <= x, x <= mx]) if ex.sym else (mn <= x <= mx)
        ex.prove(ok, 'bin-edges-inside-[min,max]-in-doubles', soft=True)
    if not ex.sym:
        for i in range(bins):
            p = sp.power_mv[i] * float(bins)
            ex.prove(abs(p - 1.0) <= 0.25, 'bin-power-is-not-halved')
    ex.sample({'bins': bins, 'mode': 'Float64', 'edges_evaluated': len(seen)})

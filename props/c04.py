"""C04 — beam density conserves particles, decays monotonically, follows its envelope (singleray.pyx, beam/node.pyx)."""
import math
import numpy as np

from symx.harness import harness
from symx import core, rs_model
from symx.core import MATH, CR
from symx.universe import Universe
from props import plasma_world as W

ATT = 'cherab.core.model.attenuator.singleray'
from scipy.constants import elementary_charge as E_CH, atomic_mass as AMU      # the CODATA set the package itself uses

Hb = W.El('hydrogen', 1, 1.00797)
C = W.El('C', 6, 12.011)
Dp = W.El('D', 1, 2.0141)


def _cumtrapz(y, x, initial=0):
    """scipy.integrate.cumulative_trapezoid, modelled exactly"""
    n = len(y)
    sym = core.CUR is not None and core.CUR.sym
    out = np.empty(n, dtype=object if sym else float)
    out[0] = initial
    for i in range(1, n):
        out[i] = out[i - 1] + (x[i] - x[i - 1]) * (y[i] + y[i - 1]) / 2.0
    return out


class _Interp1(rs_model.Function1D):
    """raysect Interpolator1DArray('linear'): exact model (value at nodes, straight line in between)"""
    def __init__(self, x, f, kind, extrap, extrapolation_range=None):
        self.x, self.f, self.kind, self.extrap, self.rng = list(x), list(f), kind, extrap, extrapolation_range

    def evaluate(self, z):
        n = len(self.x)
        for i in range(n):
            if z == self.x[i]:
                return self.f[i]
        if z < self.x[0]:
            return self.f[0]
        if z > self.x[n - 1]:
            return self.f[n - 1]
        for i in range(n - 1):
            if z < self.x[i + 1]:
                t = (z - self.x[i]) / (self.x[i + 1] - self.x[i])
                return self.f[i] + t * (self.f[i + 1] - self.f[i])
        return self.f[n - 1]


def _universe():
    return Universe(stubs={'cumulative_trapezoid': _cumtrapz, ('scipy.integrate', 'cumulative_trapezoid'): _cumtrapz, 'Interpolator1DArray': _Interp1})


class NullRate:
    def evaluate(self, *a):
        return 0.0


class AD(W.AtomicData):
    def __init__(self, ex, stopping):
        W.AtomicData.__init__(self, ex)
        self.stopping = stopping

    def beam_stopping_rate(self, beam_el, target_el, target_charge):
        self.requests.append(('beam_stopping_rate', beam_el, target_el, target_charge))
        if not self.stopping or target_charge == 0:
            return NullRate()
        r = self._rate('beam_stopping_rate', beam_el, target_el, target_charge)
        self.requests.pop()
        return r


class BeamStub:
    BEAM_AXIS = rs_model.Vector3D(0.0, 0.0, 1.0)

    def __init__(self, ex, length):
        from cherab.core.utility.notify import Notifier
        self.notifier = Notifier()
        self.element = Hb
        self.energy = ex.real('energy', pos=True)
        self.power = ex.real('power', pos=True)
        self.sigma = ex.real('sigma', pos=True)
        self.length = length
        # tan(divergence) is the primitive input (any non-negative value is the tangent of some divergence in [0, 90) degrees); the
        # divergence itself is derived from it in the replay, so that the real tan() of the replay agrees with the counterexample
        self.tanx, self.tany = ex.real('tan_div_x', nonneg=True), ex.real('tan_div_y', nonneg=True)
        if ex.sym:
            self.divergence_x, self.divergence_y = ex.real('div_x', nonneg=True), ex.real('div_y', nonneg=True)
        else:
            self.divergence_x, self.divergence_y = math.degrees(math.atan(self.tanx)), math.degrees(math.atan(self.tany))
        self.off = [ex.real('off_' + c) for c in 'xyz']

    def get_sigma(self):
        return self.sigma

    def to(self, other):
        return rs_model.translate(*self.off)

    def __bool__(self):
        return True


SPECIES = {2: [(Dp, 1), (C, 6)], 3: [(Dp, 1), (C, 6), (Dp, 0)]}


@harness('C04', name='attenuation', universe=_universe,
         tiers={'quick': [{'step': s, 'nsp': n, 'stopping': st} for s, n, st in ((0.34, 2, True), (0.25, 2, True), (0.34, 2, False))],
                'thorough': [{'step': s, 'nsp': n, 'stopping': st} for s, n, st in ((0.34, 2, True), (0.25, 2, True), (0.34, 2, False), (0.125, 2, True), (0.34, 3, True), (0.25, 3, False))]},
         functions=[ATT + '.SingleRayAttenuator.density', ATT + '.SingleRayAttenuator._calc_attenuation', ATT + '.SingleRayAttenuator._beam_attenuation',
                    ATT + '.SingleRayAttenuator._beam_stopping', 'cherab.core.utility.conversion.EvAmuToMS', 'cherab.core.utility.conversion.EvToJ'],
         cover=['attenuated'],
         bounds={'axis': 'beam length 1 m, attenuator step concrete per job (4, 5 or 9 axis nodes)', 'species': '2 or 3 (a neutral with null rate) species',
                 'values': 'energy, power, sigma, divergences, clamp_sigma in [0.5, 8], beam placement (translation), species density / temperature / velocity profiles '
                           '(uninterpreted functions of position), stopping coefficients (non-negative uninterpreted) symbolic'},
         stubs=['scipy cumulative_trapezoid and raysect linear Interpolator1DArray: exact models', 'exp: uninterpreted with monotonicity; sqrt: root variable; tan: sin/cos'],
         outside=['linear interpolation between axis nodes is raysect\'s (modelled)', 'cross-section integral of the bivariate normal = 1 (stated lemma)',
                  'rotated beam placement (translation only)', 'floating-point rounding'])
def attenuation(ex, uni, step, nsp, stopping):
    ex.div_policy = 'total'
    mod = uni.load(ATT)
    L = 1.0
    beam = BeamStub(ex, L)
    if ex.sym:
        _libm_tan = mod.tan

        def _tan(a):
            # tan(DEGREES_TO_RADIANS * divergence) of the two beam divergences is the symbolic input itself
            for dv, tv in ((beam.divergence_x, beam.tanx), (beam.divergence_y, beam.tany)):
                if core.is_sym(a) and core.lift_real(a).eq(core.lift_real(mod.DEGREES_TO_RADIANS * dv)):
                    return tv
            return _libm_tan(a)
        mod.tan = _tan
    species = [W.Species(ex, el, q) for el, q in SPECIES[nsp]]
    for s in species:
        s.distribution.pointwise = False
    plasma = W.PlasmaStub(ex, species)
    ad = AD(ex, stopping)
    att = mod.SingleRayAttenuator(step=step, clamp_to_zero=False)
    att._beam, att._plasma, att._atomic_data = beam, plasma, ad
    # transverse position and an axis node
    nb = max(1 + int(math.ceil(L / step)), 4)
    hstep = (L - 0.0) / (nb - 1)
    zs = [0.0 + i * hstep if i < nb - 1 else L for i in range(nb)]      # numpy.linspace (as modelled): start + i*step, end point exact
    k = int(ex.int('node', 0, nb - 1))
    x, y = ex.real('x'), ex.real('y')
    zk = zs[k]
    val = att.density(x, y, zk)
    ex.cover('attenuated')
    # independent statement of the on-axis line density
    v = MATH.sqrt(beam.energy * (2 * E_CH / AMU))
    n0 = beam.power / (beam.energy * Hb.atomic_weight * E_CH) / v

    def S(j):
        px, py, pz = beam.off[0], beam.off[1], zs[j] + beam.off[2]
        dsum = 0
        for s in species:
            dsum = dsum + s.charge * s.charge * s.distribution.density(px, py, pz)
        tot = 0
        for s in species:
            if s.charge == 0 or not stopping:
                continue
            ns = s.distribution.density(px, py, pz)
            vel = s.distribution.bulk_velocity(px, py, pz)
            speed = rs_model.Vector3D(0.0, 0.0, v).sub(vel).get_length()
            e_int = speed * speed / (2 * E_CH / AMU)
            coeff = ex.uf('ad_beam_stopping_rate_hydrogen_%s_%d' % (s.element.name, s.charge), e_int, dsum / s.charge,
                          s.distribution.effective_temperature(px, py, pz), nonneg=True)
            tot = tot + ns * s.charge * coeff
        return tot
    Sv = [S(j) for j in range(nb)]
    cum = [0]
    for j in range(1, nb):
        cum.append(cum[-1] + (zs[j] - zs[j - 1]) * (Sv[j] + Sv[j - 1]) / 2.0)
    line = [n0 * MATH.exp(-cum[j] / v) for j in range(nb)]
    f = att._density.f
    ex.prove(len(f) == nb and all(core._cfrac(a) == core._cfrac(b) if ex.sym else abs(a - b) < 1e-12 for a, b in zip(att._density.x, zs)), 'axis-nodes')
    for j in range(nb):
        ex.prove(ex.eq(f[j], line[j]), 'line-density(node)==P/(E*m*e)/v*exp(-trapz(S)/v)')
    ex.prove(ex.eq(att._source_density, n0), 'source-density==particle-rate/speed')
    if not stopping:
        ex.prove(ex.all([ex.eq(f[j], f[0]) for j in range(nb)]), 'no-stopping=>same-line-density-at-every-node(any-divergence)')
    else:
        for s in species:
            for j in range(nb):
                ex.assume(s.distribution.density(beam.off[0], beam.off[1], zs[j] + beam.off[2]) >= 0, 'non-negative plasma density')
        for j in range(nb - 1):
            ex.lemma(ex.le(cum[j], cum[j + 1]), 'cumulative-stopping-non-decreasing')
            ex.prove(ex.le(f[j + 1], f[j]), 'on-axis-density-never-increases')
    # transverse envelope: bivariate normal with sigma(z)^2 = sigma0^2 + (z tan(div))^2
    d2r = mod.DEGREES_TO_RADIANS
    ex.prove(abs(d2r / (math.pi / 180.0) - 1) < 1e-15, 'degrees-to-radians-constant')
    tx, ty = beam.tanx, beam.tany
    sx2 = beam.sigma * beam.sigma + (zk * tx) * (zk * tx)
    sy2 = beam.sigma * beam.sigma + (zk * ty) * (zk * ty)
    sx, sy = MATH.sqrt(sx2), MATH.sqrt(sy2)
    r2 = (x / sx) * (x / sx) + (y / sy) * (y / sy)
    want = f[k] * (MATH.exp(-0.5 * r2) / (2 * math.pi * sx * sy))
    ex.prove(ex.eq(val, want), 'density==line-density*bivariate-normal(sigma_x(z),sigma_y(z))')
    # clamping
    att.clamp_to_zero = True
    cs = ex.real('clamp_sigma', lo=0.5, hi=8)      # realistic clamp radii (default 5 sigma); far larger ones put exp(-r^2/2) below the double range and make counterexamples unreplayable
    att.clamp_sigma = cs
    v2 = att.density(x, y, zk)
    ex.prove(ex.eq(v2, ex.ite(r2 > cs * cs, 0, want)), 'clamp:zero-outside-clamp_sigma,unchanged-inside')
    ex.sample({'nodes': nb, 'species': nsp, 'stopping': stopping, 'node': k})


@harness('C04', name='beam_node',
         tiers={'quick': [{}], 'thorough': [{}]},
         functions=['cherab.core.beam.node.Beam.density', 'cherab.core.beam.node.Beam.direction'], cover=['inside', 'outside'],
         bounds={'values': 'point, length, sigma, tan(divergence) symbolic'}, stubs=['attenuator: uninterpreted density'],
         outside=['floating-point rounding'])
def beam_node(ex, uni):
    node = uni.load('cherab.core.beam.node')
    B = node.Beam
    b = B.__new__(B)
    L = ex.real('length', pos=True)
    sg = ex.real('sigma', pos=True)
    tx, ty = ex.real('tan_div_x', nonneg=True), ex.real('tan_div_y', nonneg=True)
    b._length, b._sigma, b._tanxdiv, b._tanydiv = L, sg, tx, ty
    b.BEAM_AXIS = rs_model.Vector3D(0.0, 0.0, 1.0)
    att = type('A', (), {'density': lambda s, x, y, z: ex.uf('attenuator_density', x, y, z)})()
    b._attenuator = att
    x, y, z = ex.real('x'), ex.real('y'), ex.real('z')
    d = b.density(x, y, z)
    out = ex.any([z < 0, z > L])
    if bool(out):
        ex.cover('outside')
        ex.prove(ex.eq(d, 0), 'density-zero-before-the-source-and-beyond-the-beam-length')
    else:
        ex.cover('inside')
        ex.prove(ex.eq(d, ex.uf('attenuator_density', x, y, z)), 'density-inside==attenuator-density')
    u = b.direction(x, y, z)
    if bool(z <= 0):
        ex.prove(ex.all([ex.eq(u.x, 0), ex.eq(u.y, 0), ex.eq(u.z, 1)]), 'direction-is-the-beam-axis-at-and-before-the-source')
    else:
        ex.prove(ex.eq(u.x * u.x + u.y * u.y + u.z * u.z, 1), 'direction-is-a-unit-vector')
        # streamlines keep x/sigma_x(z) constant: dx/dz = x z tan^2 / sigma_x(z)^2
        sx2 = sg * sg + z * z * tx * tx
        sy2 = sg * sg + z * z * ty * ty
        ex.prove(ex.all([ex.eq(u.x * sx2, u.z * x * z * tx * tx), ex.eq(u.y * sy2, u.z * y * z * ty * ty), ex.lt(0, u.z)]),
                 'streamlines-keep-x/sigma_x(z)-and-y/sigma_y(z)-constant')
    ex.sample({'beam': 'node'})

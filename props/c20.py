"""C20 — grid derivative and ADMT operators (cherab/tools/inversions/admt_utils.py, run from source)."""
import numpy as np
import z3

from symx.harness import harness
from symx import core
from symx.core import R, MATH

MOD = 'cherab.tools.inversions.admt_utils'


def _grid(nx, ny, x0, y0, dx, dy, sym):
    verts = []
    m12, m21 = {}, {}
    k = 0
    for ix in range(nx):
        for iy in range(ny):
            xl = x0 + dx * ix
            yt = y0 - dy * iy
            verts.append([[xl, yt], [xl + dx, yt], [xl + dx, yt - dy], [xl, yt - dy]])
            m12[k] = (ix, iy)
            m21[(ix, iy)] = k
            k += 1
    return np.array(verts, dtype=object if sym else float), m12, m21


GRIDS_Q = [(2, 2), (2, 3), (3, 2), (3, 3)]
GRIDS_T = GRIDS_Q + [(4, 3), (3, 4), (4, 4), (5, 4), (4, 5), (2, 5), (5, 2)]


@harness('C20', name='derivative_operators',
         tiers={'quick': [{'nx': a, 'ny': b} for a, b in GRIDS_Q], 'thorough': [{'nx': a, 'ny': b} for a, b in GRIDS_T]},
         functions=[MOD + '.generate_derivative_operators'],
         cover=['operators-built'],
         bounds={'grid': 'concrete shape per job (every boundary class occurs from 3x3 on)',
                 'values': 'origin, dx>0, dy>0 and all polynomial coefficients symbolic reals'},
         stubs=['numpy array creation -> object arrays (arithmetic is numpy\'s own)'],
         outside=['floating-point rounding', 'non-uniform or non-rectangular voxels (documented precondition)'])
def derivative_operators(ex, uni, nx, ny):
    au = uni.load(MOD)
    x0 = ex.real('x0')
    y0 = ex.real('y0')
    dx = ex.real('dx', pos=True)
    dy = ex.real('dy', pos=True)
    v, m12, m21 = _grid(nx, ny, x0, y0, dx, dy, ex.sym)
    ops = au.generate_derivative_operators(v, m12, m21)
    ex.cover('operators-built')
    n = nx * ny
    a, b, c, d, e, g = [ex.real(s) for s in ('ca', 'cb', 'cc', 'cd', 'ce', 'cg')]
    cen = [(x0 + dx * ix + dx / 2, y0 - dy * iy - dy / 2) for ix in range(nx) for iy in range(ny)]
    one = np.array([1.0] * n, dtype=object if ex.sym else float)
    lin = np.array([a + b * cx + c * cy for cx, cy in cen], dtype=object if ex.sym else float)
    bil = np.array([a + b * cx + c * cy + d * cx * cy for cx, cy in cen], dtype=object if ex.sym else float)
    quad = np.array([a + b * cx + c * cy + d * cx * cy + e * cx * cx + g * cy * cy for cx, cy in cen],
                    dtype=object if ex.sym else float)
    for name in ('Dx', 'Dy', 'Dxx', 'Dyy', 'Dxy'):
        r = ops[name] @ one
        for i in range(n):
            ex.prove(ex.eq(r[i], 0), name + '-annihilates-constants')
        if ops[name].shape != (n, n):
            ex.prove(False, name + '-shape')
    gx, gy = ops['Dx'] @ lin, ops['Dy'] @ lin
    for i in range(n):
        ex.prove(ex.eq(gx[i], b), 'Dx-exact-on-linear')
        ex.prove(ex.eq(gy[i], c), 'Dy-exact-on-linear')
    gxy = ops['Dxy'] @ bil
    for i in range(n):
        ex.prove(ex.eq(gxy[i], d), 'Dxy-exact-on-bilinear')
    gxx, gyy = ops['Dxx'] @ quad, ops['Dyy'] @ quad
    ix_int = [k for k in range(n) if 0 < m12[k][0] < nx - 1]
    iy_int = [k for k in range(n) if 0 < m12[k][1] < ny - 1]
    for i in ix_int:
        ex.prove(ex.eq(gxx[i], 2 * e), 'Dxx-exact-on-quadratic-interior')
    for i in iy_int:
        ex.prove(ex.eq(gyy[i], 2 * g), 'Dyy-exact-on-quadratic-interior')
    ex.sample({'grid': [nx, ny], 'cells': n, 'interior_x': len(ix_int), 'interior_y': len(iy_int)})


def _oracle_coeffs():
    """coefficients of f_x, f_y, f_xx, f_xy, f_yy in div(D grad f), cylindrical (x = R), derived by sympy"""
    import sympy as sp
    x, y = sp.symbols('x y')
    Dperp, Dpar = sp.symbols('Dperp Dpar')
    psi = sp.Function('psi')(x, y)
    f = sp.Function('f')(x, y)
    px, py = sp.diff(psi, x), sp.diff(psi, y)
    N = px ** 2 + py ** 2
    # D = Dperp n n^T + Dpar (I - n n^T), n = grad psi / |grad psi|
    Dxx = (Dperp * px ** 2 + Dpar * py ** 2) / N
    Dyy = (Dperp * py ** 2 + Dpar * px ** 2) / N
    Dxy = (Dperp - Dpar) * px * py / N
    Fx = Dxx * sp.diff(f, x) + Dxy * sp.diff(f, y)
    Fy = Dxy * sp.diff(f, x) + Dyy * sp.diff(f, y)
    div = sp.diff(Fx, x) + sp.diff(Fy, y) + Fx / x
    div = sp.expand(div)
    s = {n: sp.Symbol(n) for n in ('psix', 'psiy', 'psixx', 'psixy', 'psiyy', 'fx', 'fy', 'fxx', 'fxy', 'fyy', 'Rr')}
    rep = [(sp.diff(psi, x, 2), s['psixx']), (sp.diff(psi, x, y), s['psixy']), (sp.diff(psi, y, 2), s['psiyy']),
           (sp.diff(f, x, 2), s['fxx']), (sp.diff(f, x, y), s['fxy']), (sp.diff(f, y, 2), s['fyy']),
           (sp.diff(psi, x), s['psix']), (sp.diff(psi, y), s['psiy']), (sp.diff(f, x), s['fx']), (sp.diff(f, y), s['fy'])]
    div = div.subs(rep).subs(x, s['Rr'])
    out = {}
    for k in ('fx', 'fy', 'fxx', 'fxy', 'fyy'):
        out[k] = sp.together(sp.expand(div).coeff(s[k]))
    rest = sp.simplify(sp.expand(div) - sum(sp.expand(out[k] * s[k]) for k in out))
    assert rest == 0, rest
    return out, s


def _sympy_eval(expr, env):
    """evaluate a sympy rational expression on proxies / floats"""
    import sympy as sp
    if expr.is_Symbol:
        return env[expr.name]
    if expr.is_Integer:
        return int(expr)
    if expr.is_Rational:
        return int(expr.p) / int(expr.q) if not core.CUR.sym else R(z3.RealVal(int(expr.p)) / z3.RealVal(int(expr.q)))
    if expr.is_Add:
        r = _sympy_eval(expr.args[0], env)
        for a_ in expr.args[1:]:
            r = r + _sympy_eval(a_, env)
        return r
    if expr.is_Mul:
        r = _sympy_eval(expr.args[0], env)
        for a_ in expr.args[1:]:
            r = r * _sympy_eval(a_, env)
        return r
    if expr.is_Pow:
        base, ex_ = expr.args
        bv = _sympy_eval(base, env)
        p = int(ex_)
        if p >= 0:
            return core.sym_pow(bv, p) if core.is_sym(bv) else bv ** p
        return 1 / (core.sym_pow(bv, -p) if core.is_sym(bv) else bv ** (-p))
    raise core.HarnessError('sympy node %r' % expr)


@harness('C20', name='admt_operator',
         tiers={'quick': [{'coef': k} for k in ('x', 'y', 'xx', 'xy', 'yy')],
                'thorough': [{'coef': k} for k in ('x', 'y', 'xx', 'xy', 'yy')]},
         timeout_ms=120000,
         functions=[MOD + '.calculate_admt'],
         cover=['admt-built'],
         bounds={'cells': 'one generic cell (+2 concrete filler cells): the five operators are abstract rows (u_k, v_k, -u_k-v_k) that '
                          'annihilate constants; psi = e0 so D_k@psi = u_k (free symbol per operator); five test fields e1 with v = unit vectors',
                 'values': 'psi derivatives, R>0, dx,dy>0, anisotropy>=1 symbolic; |grad psi| != 0'},
         stubs=['oracle: div(D grad f) in cylindrical geometry derived at run time by sympy'],
         outside=['floating-point rounding', 'discretisation error of the derivative operators themselves (see derivative_operators)'])
def admt_operator(ex, uni, coef):
    au = uni.load(MOD)
    names = ('x', 'y', 'xx', 'xy', 'yy')
    u = {k: ex.real('psi' + k) for k in names}
    Rr = ex.real('Rr', pos=True)
    dx = ex.real('dx', pos=True)
    dy = ex.real('dy', pos=True)
    aniso = ex.real('anisotropy', lo=1)
    ex.assume(u['x'] * u['x'] + u['y'] * u['y'] > 0)
    dt = object if ex.sym else float
    coeffs, syms = _oracle_coeffs()
    env = {'psix': u['x'], 'psiy': u['y'], 'psixx': u['xx'], 'psixy': u['xy'], 'psiyy': u['yy'], 'Rr': Rr,
           'Dpar': 1, 'Dperp': 1 / aniso}
    scale = MATH.sqrt(dx * dy)
    lap = {'x': 1 / Rr, 'y': 0.0, 'xx': 1.0, 'xy': 0.0, 'yy': 1.0}
    psi = np.array([1.0, 0.0, 0.0])
    radii = np.array([Rr, 1.5, 2.5], dtype=dt)
    # the operator is applied to five test fields whose only non-zero derivative at the generic cell is f_k = 1:
    # L @ e1 then is sqrt(dx dy) * (coefficient of f_k in the discretised operator)
    for kk in (coef,):
        ops = {}
        for j, k in enumerate(names):
            vk = 1.0 if k == kk else 0.0
            # row 0: the generic cell; rows 1,2: concrete filler cells (constant-annihilating, non-zero gradient)
            ops['D' + k] = np.array([[u[k], vk, -u[k] - vk],
                                     [1.0 + j, 2.0, -3.0 - j],
                                     [-2.0, 0.5 * (j + 1), 2.0 - 0.5 * (j + 1)]], dtype=dt)
        L = au.calculate_admt(radii, ops, psi, dx, dy, anisotropy=aniso)
        ex.cover('admt-built')
        ex.prove(getattr(L, 'shape', None) == (3, 3), 'operator-shape')
        ex.prove(ex.eq(L[0, 0] + L[0, 1] + L[0, 2], 0), 'admt-annihilates-constants')
        C = _sympy_eval(coeffs['f' + kk], env)
        ex.prove(ex.eq(L[0, 1], scale * C), 'coefficient-of-f_%s==sqrt(dxdy)*[div(D grad f)]' % kk)
        # isotropic limit: Laplacian in cylindrical geometry whatever the flux map
        ex.prove(ex.implies(aniso == 1, ex.eq(L[0, 1], scale * lap[kk])), 'anisotropy=1=>cylindrical-laplacian[f_%s]' % kk)
    ex.sample({'oracle_fx': str(coeffs['fx'])[:200]})

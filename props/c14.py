"""C14 — caching functions are history-independent and interpolate the cached function (caching{1,2,3}d.pyx translated)."""
import random
from fractions import Fraction
import numpy as np

from symx.harness import harness
from symx import core, rs_model
from symx.core import CR, R
from symx.universe import Universe

CACH = 'cherab.core.math.caching.caching%dd'


def _frac(v):
    f = core._cfrac(v)
    if f is None:
        raise core.HarnessError('numpy.linalg.solve contract needs a concrete matrix')
    return f


def _solve(A, b):
    """numpy.linalg.solve for a concrete (rational) matrix and a possibly symbolic right-hand side: exact Gauss-Jordan
    inverse, x = A^-1 b.  (Contract of numpy.linalg.solve, evaluated exactly.)"""
    A = np.asarray(A)
    n = A.shape[0]
    if not (core.CUR is not None and core.CUR.sym):
        return np.linalg.solve(np.array(A, dtype=float), np.array(b, dtype=float))
    key = tuple(_frac(A[i, j]) for i in range(n) for j in range(n))
    M = _INV.get(key)
    if M is None:
        M = _invert(key, n)
        _INV[key] = M
    x = np.empty(n, dtype=object)
    for i in range(n):
        acc = 0
        for j in range(n):
            cij = M[i][n + j]
            if cij != 0:
                acc = acc + CR(cij) * b[j]
        x[i] = acc
    return x


_INV = {}


def _invert(key, n):
    M = [[key[i * n + j] for j in range(n)] + [Fraction(int(i == j)) for j in range(n)] for i in range(n)]
    for c in range(n):
        piv = next(r for r in range(c, n) if M[r][c] != 0)
        M[c], M[piv] = M[piv], M[c]
        pv = M[c][c]
        M[c] = [v / pv for v in M[c]]
        for r in range(n):
            if r != c and M[r][c] != 0:
                f = M[r][c]
                M[r] = [a - f * bb for a, bb in zip(M[r], M[c])]
    return M


def _universe():
    return Universe(stubs={('numpy.linalg', 'solve'): _solve})


class RecF(rs_model._Fn):
    """wrapped function: uninterpreted, calls logged"""
    def __init__(self, ex, name, base):
        self.ex, self.name, self.calls = ex, name, []
        self.__class__ = type('Rec', (RecF, base), {})

    def evaluate(self, *p):
        self.calls.append(p)
        return self.ex.uf(self.name, *p)


def _base(dim):
    return {1: rs_model.Function1D, 2: rs_model.Function2D, 3: rs_model.Function3D}[dim]


class PolyF(rs_model._Fn):
    def __init__(self, f, base):
        self.f = f
        self.__class__ = type('Poly', (PolyF, base), {})

    def evaluate(self, *p):
        return self.f(*p)


def _mk(uni, ex, dim, fn, lo, hi, res, **kw):
    mod = uni.load(CACH % dim)
    K = getattr(mod, 'Caching%dD' % dim)
    c = lambda v: CR(v) if ex.sym else float(v)
    if dim == 1:
        return K(fn, (c(lo), c(hi)), c(res), **kw)
    area = []
    for _ in range(dim):
        area += [c(lo), c(hi)]
    return K(fn, tuple(area), tuple(c(res) for _ in range(dim)), **kw)


def _nodes(cache, dim):
    axes = [cache.x_domain_view]
    if dim >= 2:
        axes.append(cache.y_domain_view)
    if dim >= 3:
        axes.append(cache.z_domain_view)
    return [[a[i] for i in range(len(a))] for a in axes]


def _validate(uni, dim, **kw):
    """translated caching classes vs the compiled ones"""
    import cherab.core.math as real
    mod = uni.load(CACH % dim)
    rnd = random.Random(dim)
    f = {1: lambda x: x * x - 0.3 * x, 2: lambda x, y: x * y + x - 2 * y * y, 3: lambda x, y, z: x * y * z + z * z - x}[dim]
    area = (0.0, 1.0) * dim if dim > 1 else (0.0, 1.0)
    res = (0.25,) * dim if dim > 1 else 0.25
    a = getattr(mod, 'Caching%dD' % dim)(f, area, res)
    b = getattr(real, 'Caching%dD' % dim)(f, area, res)
    n = 0
    for _ in range(6):
        p = [rnd.uniform(0.01, 0.99) for _ in range(dim)]
        va, vb = float(a(*p)), float(b(*p))
        if abs(va - vb) > 1e-9 * max(1.0, abs(vb)):
            raise core.HarnessError('translator validation failed (Caching%dD at %r): %r vs %r' % (dim, p, va, vb))
        n += 1
    return n


GRIDS = {'quick': [(1, 0.5), (1, 0.34)], 'thorough': [(1, 0.5), (1, 0.34), (1, 0.26), (1, 0.21)]}


@harness('C14', name='caching_1d', universe=_universe, validate=lambda uni, **kw: _validate(uni, 1),
         tiers={'quick': [{'res': r, 'what': w} for (_, r) in GRIDS['quick'] for w in ('history', 'nodes', 'linear', 'quadratic', 'outside')],
                'thorough': [{'res': r, 'what': w} for (_, r) in GRIDS['thorough'] for w in ('history', 'nodes', 'linear', 'quadratic', 'outside')]},
         functions=[(CACH % 1) + '.Caching1D', 'cherab.core.math.interpolators.utility.find_index', 'cherab.core.math.interpolators.utility.derivatives_array',
                    'cherab.core.math.interpolators.utility.factorial'],
         cover=['evaluated'],
         bounds={'area': '[0,1], resolution concrete per job (2-5 cells); evaluation points, function values, polynomial coefficients and '
                         'value-normalisation bounds symbolic', 'history': 'two evaluations in arbitrary segments vs a fresh object'},
         stubs=['numpy.linalg.solve: exact rational inverse of the concrete 4x4 matrix', 'wrapped function: uninterpreted, calls logged'],
         outside=['error bound for general twice-differentiable functions (shown for symbolic quadratics with K = 1/4)', 'floating-point rounding'])
def caching_1d(ex, uni, res, what):
    lo, hi = 0.0, 1.0
    if what == 'history':
        F = RecF(ex, 'F', _base(1))
        use_bounds = bool(ex.bool('with_function_boundaries'))
        kw = {}
        if use_bounds:
            dmin = ex.real('data_min')
            dd = ex.real('data_range', pos=True)
            kw['function_boundaries'] = (dmin, dmin + dd)
        c1 = _mk(uni, ex, 1, F, lo, hi, res, **kw)
        p1 = ex.real('p1', lo=0, hi=1)
        p2 = ex.real('p2', lo=0, hi=1)
        c1(p1)
        v_hist = c1(p2)
        v_again = c1(p2)
        F2 = RecF(ex, 'F', _base(1))
        c2 = _mk(uni, ex, 1, F2, lo, hi, res)      # fresh object, no value normalisation
        v_fresh = c2(p2)
        ex.cover('evaluated')
        ex.prove(ex.eq(v_hist, v_fresh), 'value-independent-of-earlier-evaluations(and-of-function_boundaries)')
        ex.prove(ex.eq(v_again, v_hist), 'repeated-evaluation-returns-the-same-value')
        nodes = _nodes(c2, 1)[0]
        ok = all(any(core._cfrac(p[0]) == core._cfrac(nd) for nd in nodes) for p in F.calls + F2.calls) if ex.sym else True
        ex.prove(ok, 'wrapped-function-sampled-only-at-sampling-nodes')
    elif what == 'nodes':
        F = RecF(ex, 'F', _base(1))
        c1 = _mk(uni, ex, 1, F, lo, hi, res)
        nodes = [nd for nd in _nodes(c1, 1)[0] if 0 <= core._cfrac(nd) <= 1] if ex.sym else [nd for nd in _nodes(c1, 1)[0] if 0 <= nd <= 1]
        k = int(ex.int('node', 0, len(nodes) - 1))
        v = c1(nodes[k])
        ex.cover('evaluated')
        ex.prove(ex.eq(v, ex.uf('F', nodes[k])), 'value-at-sampling-node==wrapped-function')
    elif what == 'linear':
        a, b = ex.real('a'), ex.real('b')
        c1 = _mk(uni, ex, 1, PolyF(lambda x: a + b * x, _base(1)), lo, hi, res)
        p = ex.real('p', lo=0, hi=1)
        ex.cover('evaluated')
        ex.prove(ex.eq(c1(p), a + b * p), 'linear-function-reproduced-exactly')
    elif what == 'quadratic':
        a, b, c = ex.real('a'), ex.real('b'), ex.real('c')
        c1 = _mk(uni, ex, 1, PolyF(lambda x: a + b * x + c * x * x, _base(1)), lo, hi, res)
        p = ex.real('p', lo=0, hi=1)
        v = c1(p)
        nodes = [float(core._cfrac(n)) for n in _nodes(c1, 1)[0]]
        h = max(nodes[i + 1] - nodes[i] for i in range(len(nodes) - 1))
        err = v - (a + b * p + c * p * p)
        bound = 0.25 * h * h * 2 * abs(c) if not ex.sym else CR(0.25 * h * h * 2) * abs(c)
        ex.cover('evaluated')
        ex.prove(ex.all([ex.le(err, bound), ex.le(-bound, err)]), 'quadratic:|error|<=(1/4)*h^2*max|F\'\'|')
    else:
        F = RecF(ex, 'F', _base(1))
        nbe = bool(ex.bool('no_boundary_error'))
        c1 = _mk(uni, ex, 1, F, lo, hi, res, no_boundary_error=nbe)
        p = ex.real('p')
        ex.assume(ex.any([p < -0.001, p > 1.001]))
        try:
            v = c1(p)
            err = None
        except ValueError as e:
            v, err = None, e
        ex.cover('evaluated')
        if nbe:
            ex.prove(err is None and (ex.eq(v, ex.uf('F', p)) if err is None else False), 'outside+no_boundary_error=>wrapped-function-directly')
        else:
            ex.prove(err is not None, 'outside=>ValueError')
    ex.sample({'dim': 1, 'resolution': res, 'what': what})


@harness('C14', name='caching_2d', universe=_universe, validate=lambda uni, **kw: _validate(uni, 2),
         tiers={'quick': [{'res': 0.5, 'what': w} for w in ('history', 'nodes', 'bilinear', 'bilinear_bounds', 'quadratic', 'outside')],
                'thorough': [{'res': r, 'what': w} for r in (0.5, 0.34) for w in ('history', 'nodes', 'bilinear', 'bilinear_bounds', 'quadratic', 'outside')]},
         functions=[(CACH % 2) + '.Caching2D'], cover=['evaluated'],
         bounds={'area': '[0,1]^2, resolution concrete per job (2-3 cells per axis); points and function values symbolic'},
         stubs=['numpy.linalg.solve: exact rational inverse of the concrete 16x16 matrix'],
         outside=['error bound for general twice-differentiable functions (shown for symbolic quadratics: bilinear part + q_x x^2 + q_y y^2)'])
def caching_2d(ex, uni, res, what):
    _nd(ex, uni, 2, res, what)


@harness('C14', name='caching_3d', universe=_universe, validate=lambda uni, **kw: _validate(uni, 3),
         tiers={'quick': [{'res': 0.5, 'what': w} for w in ('trilinear', 'trilinear_bounds', 'outside')],
                'thorough': [{'res': 0.5, 'what': w} for w in ('history', 'nodes', 'trilinear', 'trilinear_bounds', 'quadratic', 'outside')]},
         functions=[(CACH % 3) + '.Caching3D'], cover=['evaluated'],
         bounds={'area': '[0,1]^3, 2 cells per axis; points and function values symbolic'},
         stubs=['numpy.linalg.solve: exact rational inverse of the concrete 64x64 matrix'],
         outside=['error bound for general twice-differentiable functions (thorough tier: symbolic quadratics)'])
def caching_3d(ex, uni, res, what):
    _nd(ex, uni, 3, res, what)


def _nd(ex, uni, dim, res, what):
    lo, hi = 0.0, 1.0
    names = 'xyz'[:dim]
    if what == 'history':
        F = RecF(ex, 'F', _base(dim))
        c1 = _mk(uni, ex, dim, F, lo, hi, res)
        p1 = [ex.real('p1' + n, lo=0, hi=1) for n in names]
        p2 = [ex.real('p2' + n, lo=0, hi=1) for n in names]
        c1(*p1)
        v_hist = c1(*p2)
        c2 = _mk(uni, ex, dim, RecF(ex, 'F', _base(dim)), lo, hi, res)
        v_fresh = c2(*p2)
        ex.cover('evaluated')
        ex.prove(ex.eq(v_hist, v_fresh), 'value-independent-of-earlier-evaluations')
        ex.prove(ex.eq(c1(*p2), v_hist), 'repeated-evaluation-returns-the-same-value')
    elif what == 'quadratic':
        # curvature error bound: F = bilinear part + sum_d q_d x_d^2; the bilinear part is reproduced exactly, each pure
        # quadratic contributes at most (1/4) h^2 max|F_dd| (the 1D bound)
        co = [ex.real('c%d' % i) for i in range(2 ** dim)]
        qd = [ex.real('q%d' % d) for d in range(dim)]

        def f(*p):
            tot = 0
            for m in range(2 ** dim):
                term = co[m]
                for d in range(dim):
                    if m >> d & 1:
                        term = term * p[d]
                tot = tot + term
            for d in range(dim):
                tot = tot + qd[d] * p[d] * p[d]
            return tot
        c1 = _mk(uni, ex, dim, PolyF(f, _base(dim)), lo, hi, res)
        p = [ex.real('p' + n, lo=0, hi=1) for n in names]
        v = c1(*p)
        bound = 0
        for d, ax in enumerate(_nodes(c1, dim)):
            nd = [float(core._cfrac(n)) if ex.sym else float(n) for n in ax]
            h = max(nd[i + 1] - nd[i] for i in range(len(nd) - 1))
            bound = bound + (CR(0.25 * h * h * 2) if ex.sym else 0.25 * h * h * 2) * abs(qd[d])
        err = v - f(*p)
        ex.cover('evaluated')
        ex.prove(ex.all([ex.le(err, bound), ex.le(-bound, err)]), 'quadratic:|error|<=(1/4)*sum_d(h_d^2*max|F_dd|)')
    elif what == 'nodes':
        F = RecF(ex, 'F', _base(dim))
        c1 = _mk(uni, ex, dim, F, lo, hi, res)
        axes = [[nd for nd in ax if 0 <= (core._cfrac(nd) if ex.sym else nd) <= 1] for ax in _nodes(c1, dim)]
        pt = [ax[int(ex.int('node' + n, 0, len(ax) - 1))] for n, ax in zip(names, axes)]
        ex.cover('evaluated')
        ex.prove(ex.eq(c1(*pt), ex.uf('F', *pt)), 'value-at-sampling-node==wrapped-function')
    elif what in ('bilinear', 'trilinear', 'bilinear_bounds', 'trilinear_bounds'):
        co = [ex.real('c%d' % i) for i in range(2 ** dim)]
        kw = {}
        if what.endswith('_bounds'):
            # value normalisation: supplying function bounds only rescales internally
            dmin, dd = ex.real('data_min'), ex.real('data_range', pos=True)
            kw['function_boundaries'] = (dmin, dmin + dd)

        def f(*p):
            # function linear in each coordinate: sum over subsets of coordinates
            tot = 0
            for m in range(2 ** dim):
                term = co[m]
                for d in range(dim):
                    if m >> d & 1:
                        term = term * p[d]
                tot = tot + term
            return tot
        c1 = _mk(uni, ex, dim, PolyF(f, _base(dim)), lo, hi, res, **kw)
        p = [ex.real('p' + n, lo=0, hi=1) for n in names]
        ex.cover('evaluated')
        ex.prove(ex.eq(c1(*p), f(*p)), 'function-linear-in-each-coordinate-reproduced-exactly' + ('(with-function_boundaries)' if kw else ''))
    else:
        F = RecF(ex, 'F', _base(dim))
        nbe = bool(ex.bool('no_boundary_error'))
        c1 = _mk(uni, ex, dim, F, lo, hi, res, no_boundary_error=nbe)
        p = [ex.real('p' + n) for n in names]
        ax = int(ex.int('axis_outside', 0, dim - 1))       # which coordinate leaves the caching area (the others stay inside)
        ex.assume(ex.any([p[ax] < -0.001, p[ax] > 1.001]))
        for d, q in enumerate(p):
            if d != ax:
                ex.assume(q >= 0)
                ex.assume(q <= 1)
        try:
            v = c1(*p)
            err = None
        except ValueError as e:
            v, err = None, e
        ex.cover('evaluated')
        if nbe:
            ex.prove(err is None and (ex.eq(v, ex.uf('F', *p)) if err is None else False), 'outside+no_boundary_error=>wrapped-function-directly')
        else:
            ex.prove(err is not None, 'outside=>ValueError')
    ex.sample({'dim': dim, 'resolution': res, 'what': what})

"""C08 — ADF parsers: numbers of a generated file land in the documented table positions under the documented conversions.

The text structure of a file (grid sizes, number of blocks, header kind) is concrete per job and enumerated; every *number* in the file
is a provenance-tagged token: its text is an ordinary, unique numeral of the format, and float() of that numeral is a fresh symbolic real.
The real parsers (cherab/openadas/parse/*.py, install.py loaded from /repo) run on the text; the tables they return are compared by the
solver, cell by cell, with the expected symbolic expression (token, 10**token * 1e6, token / 10, ...)."""
import os
import shutil
import tempfile
import numpy as np

from symx.harness import harness
from symx import core, rt
from symx.core import MATH
from symx.universe import Universe

P = 'cherab.openadas.parse.'
INST = 'cherab.openadas.install'


# ------------------------------------------------------------------------------------------------ tokens
class Tokens:
    """unique numerals <-> symbolic values"""
    def __init__(self, ex):
        self.ex = ex
        self.n = 0
        rt.FLOAT_TOKENS.clear()
        self.by_name = {}

    def _register(self, text, name, strip_d=True):
        key = float(text.replace('D', 'E'))
        if key in rt.FLOAT_TOKENS:
            raise core.HarnessError('token collision for %s' % text)
        v = self.ex.real(name)
        rt.FLOAT_TOKENS[key] = v
        self.by_name[name] = v
        return v

    def sci(self, name, width=10, exp_char='E'):
        """Fortran 1PE(width).3-like field, right-justified in `width` characters"""
        self.n += 1
        k = self.n
        mant = 1000 + (k % 9000)
        expo = 3 + (k // 9000)
        text = '%d.%03d%s+%02d' % (mant // 1000, mant % 1000, exp_char, expo)
        v = self._register(text, name)
        return text.rjust(width), v

    def fix(self, name, width=10, sign=-1):
        """Fortran F(width).5 field (ADF11 log10 values); log densities are positive, log temperatures of either sign, log rates negative"""
        self.n += 1
        k = self.n
        text = '%.5f' % (sign * (1.0 + k * 0.00037))
        v = self._register(text, name)
        return text.rjust(width), v

    def ang(self, name):
        """wavelength in Angstrom as written in ADF15 (F8.1 / F10.1)"""
        self.n += 1
        text = '%.1f' % (50000.0 + self.n * 0.7)
        v = self._register(text, name)
        return text, v


def _rows(fields, per_line, lead=''):
    out = []
    for k in range(0, len(fields), per_line):
        out.append(lead + ''.join(fields[k:k + per_line]))
    return out


class Elem:
    """stand-in for cherab.core.atomic.Element (name, symbol, atomic_number); identity-hashed like the real one"""
    def __init__(self, name, symbol, z):
        self.name, self.symbol, self.atomic_number = name, symbol, z

    def __repr__(self):
        return '<Element %s>' % self.name


H = Elem('hydrogen', 'H', 1)
C = _C = Elem('carbon', 'C', 6)
NE = Elem('neon', 'Ne', 10)
WOLF = Elem('tungsten', 'W', 74)


def _universe():
    return Universe(stubs={'Element': Elem, 'hydrogen': H})


class Case:
    def __init__(self, ex, uni):
        self.ex, self.uni = ex, uni
        MATH.light = True      # 10**x is a plain uninterpreted function here (thousands of applications, no ordering facts needed)
        self.tok = Tokens(ex)
        self.dir = tempfile.mkdtemp(prefix='c08_')

    def write(self, name, lines):
        path = os.path.join(self.dir, name)
        os.makedirs(os.path.dirname(path), exist_ok=True)
        with open(path, 'w') as f:
            f.write('\n'.join(lines) + '\n')
        return path

    def close(self):
        shutil.rmtree(self.dir, ignore_errors=True)
        rt.FLOAT_TOKENS.clear()


def _eq_table(ex, got, want):
    """got: array-like of the parser; want: nested lists of expected values"""
    g = np.asarray(got)
    w = np.empty(g.shape, dtype=object) if False else None
    wa = np.array(want, dtype=object)
    if tuple(g.shape) != tuple(wa.shape):
        return False
    return ex.all([ex.eq(g[idx], wa[idx]) for idx in np.ndindex(*g.shape)])


def pow10(x):
    return core.sym_pow(10, x) if core.is_sym(x) else 10 ** x


# ------------------------------------------------------------------------------------------------ ADF11
def write_adf11(case, element, n_ne, n_te, charges, resolved, trailer=True, cold=True):
    """independent writer of the published ADF11 layout: I5 header fields, F10.5 log10 values 8 per line, one block per ion charge with a
    '---/ IPRT= 1 / IGRD= 1 /---/ Z1= n / DATE=' separator, rows of n_ne values per temperature, comment trailer 'C---'"""
    T = case.tok
    lines = ['%5d%5d%5d%5d%5d     /%-19s/GCR PROJECT' % (element.atomic_number, n_ne, n_te, min(charges), max(charges), element.name.upper())]
    lines.append('-' * 80)
    if resolved:
        lines.append(''.join('%5d' % 1 for _ in range(len(charges) + 1)))
        lines.append('-' * 80)
    dens = [T.fix('ne_%d' % i, sign=1) for i in range(n_ne)]
    temp = [T.fix('te_%d' % i, sign=(-1 if (i < n_te // 2 or (cold and i == 0)) else 1)) for i in range(n_te)]
    lines += _rows([d[0] for d in dens], 8)
    lines += _rows([t[0] for t in temp], 8)
    blocks = {}
    for z1 in charges:
        lines.append('--------------------/ IPRT= 1  / IGRD= 1  /--------/ Z1=%2d   / DATE= 04/03/99' % z1)
        tab = [[None] * n_te for _ in range(n_ne)]
        for it in range(n_te):
            row = []
            for ine in range(n_ne):
                txt, v = T.fix('r_z%d_t%d_n%d' % (z1, it, ine))
                tab[ine][it] = v
                row.append(txt)
            lines += _rows(row, 8)
        blocks[z1] = tab
    if trailer:
        lines.append('C' + '-' * 79)
        lines.append('C')
        lines.append('C  PRODUCED BY THE VERIFICATION WRITER')
        lines.append('C' + '-' * 79)
    return lines, [d[1] for d in dens], [t[1] for t in temp], blocks


ADF11_Q = [{'n_ne': a, 'n_te': b, 'charges': c, 'resolved': r} for (a, b, c, r) in
           [(1, 1, (1,), False), (3, 2, (1, 2), False), (3, 2, (1, 9, 10), False), (9, 4, (2, 10, 11, 20, 21, 74), False), (8, 9, (10, 1), True), (8, 8, (1, 2, 3), False), (9, 7, (1, 2), True), (17, 16, (3, 4, 5, 6), False), (24, 30, (1,), True)]]
ADF11_T = ADF11_Q + [{'n_ne': a, 'n_te': b, 'charges': tuple(range(1, c + 1)), 'resolved': r} for a in (1, 2, 7, 8, 9, 15, 16, 17, 25) for b in (1, 2, 7, 8, 9, 16, 17, 31)
                     for c in (1, 2, 5, 11) for r in (False, True)]

COMMON_OUT = ['regular-expression scraping on symbolic text (all text structure is concrete per job; only the numbers are symbolic)',
              'download / URL handling in _locate_adas_file', 'writing the tables to the JSON repository and reading them back is C06\'s claim: here the '
              'dictionaries handed to repository.update_* are compared with the documented content',
              'precision of the decimal numerals (a numeral stands for the real number it denotes)']


@harness('C08', name='adf11', universe=_universe, tiers={'quick': ADF11_Q + ADF11_T[len(ADF11_Q)::5], 'thorough': ADF11_T},
         functions=[P + 'adf11.parse_adf11', INST + '._notation_adf11_adas2cherab', INST + '.install_adf11scd', INST + '.install_adf11acd', INST + '.install_adf11ccd',
                    INST + '.install_adf11plt', INST + '.install_adf11prb', INST + '.install_adf11prc'],
         cover=['parsed', 'installed', 'rejected-element-mismatch'],
         bounds={'grid': 'n_ne x n_te and the set of Z1 blocks concrete per job (quick: 6 shapes up to 24x30; thorough: 432 shapes up to 25x31, 1-5 blocks, resolved / unresolved header)',
                 'values': 'every number in the file is a symbolic real'},
         stubs=['float(numeral) / numpy.fromstring: the numeral\'s symbolic value', 'repository.update_*: recording stub', '10**x: uninterpreted pow10'],
         outside=COMMON_OUT + ['metastable-resolved blocks with more than one metastable per stage (the parser keeps one table per charge)'])
def adf11(ex, uni, n_ne, n_te, charges, resolved):
    case = Case(ex, uni)
    C = _C if max(charges) <= 6 else (NE if max(charges) <= 10 else WOLF)      # element with enough charge states (two-digit Z1 included)
    try:
        lines, dens, temp, blocks = write_adf11(case, C, n_ne, n_te, charges, resolved)
        path = case.write('adf11/scd96/scd96_c.dat', lines)
        mod = uni.load(P + 'adf11')
        out = mod.parse_adf11(C, path)
        ex.cover('parsed')
        ex.prove(list(out.keys()) == [C], 'adf11:one-entry-for-the-element')
        ex.prove(sorted(out[C].keys()) == sorted(charges), 'adf11:one-table-per-Z1-block')
        for z1 in charges:
            d = out[C][z1]
            ex.prove(_eq_table(ex, d['ne'], dens), 'adf11:density-axis==first-n_ne-numbers')
            ex.prove(_eq_table(ex, d['te'], temp), 'adf11:temperature-axis==next-n_te-numbers')
            ex.prove(_eq_table(ex, d['rates'], blocks[z1]), 'adf11:rates[ne,te]==block-row(te)-column(ne)')
        # element header mismatch is rejected
        for wrong in (Elem('argon', 'Ar', 18), Elem(C.name, C.symbol, C.atomic_number + 1), Elem('boron', 'B', C.atomic_number)):
            try:
                mod.parse_adf11(wrong, path)
                ok = False
            except ValueError:
                ok = True
            ex.prove(ok, 'adf11:element-mismatch=>ValueError')
        ex.cover('rejected-element-mismatch')
        try:
            mod.parse_adf11('carbon', path)
            ok = False
        except TypeError:
            ok = True
        ex.prove(ok, 'adf11:non-Element=>TypeError')
        # install: notation conversion and routing
        inst = uni.load(INST)
        rec = _Recorder()
        inst.repository = rec
        for ftype, fn, upd, shift in (('scd', 'install_adf11scd', 'update_ionisation_rates', -1), ('acd', 'install_adf11acd', 'update_recombination_rates', 0),
                                      ('plt', 'install_adf11plt', 'update_line_power_rates', -1), ('prb', 'install_adf11prb', 'update_continuum_power_rates', 0),
                                      ('prc', 'install_adf11prc', 'update_cx_power_rates', 0), ('ccd', 'install_adf11ccd', 'update_thermal_cx_rates', 0)):
            del rec.calls[:]
            if ftype == 'ccd':
                getattr(inst, fn)(H, 0, C, 'adf11/scd96/scd96_c.dat', repository_path='/repo_x', adas_path=case.dir)
            else:
                getattr(inst, fn)(C, 'adf11/scd96/scd96_c.dat', repository_path='/repo_x', adas_path=case.dir)
            ex.prove(len(rec.calls) == 1 and rec.calls[0][0] == upd and rec.calls[0][2] == '/repo_x', 'adf11-install:%s->repository.%s(repository_path)' % (ftype, upd))
            if len(rec.calls) != 1:
                continue
            rates = rec.calls[0][1]
            if ftype == 'ccd':
                ex.prove(list(rates.keys()) == [H] and list(rates[H].keys()) == [0], 'adf11-install:ccd-keyed-by-donor-and-donor-charge')
                rates = rates[H][0]
            ex.prove(list(rates.keys()) == [C] and sorted(rates[C].keys()) == sorted(z + shift for z in charges),
                     'adf11-install:%s-charge==Z1%+d' % (ftype, shift))
            for z1 in charges:
                if (z1 + shift) not in rates[C]:
                    continue
                d = rates[C][z1 + shift]
                ex.prove(_eq_table(ex, d['ne'], [pow10(v) * 1e6 for v in dens]), 'adf11-install:ne==10**log10(cm^-3)*1e6')
                ex.prove(_eq_table(ex, d['te'], [pow10(v) for v in temp]), 'adf11-install:te==10**log10(eV)')
                ex.prove(_eq_table(ex, d['rates'], [[pow10(v) * 1e-6 for v in row] for row in blocks[z1]]), 'adf11-install:rates==10**log10(cm^3/s)*1e-6,[ne,te]')
        ex.cover('installed')
        ex.sample({'n_ne': n_ne, 'n_te': n_te, 'charges': list(charges), 'resolved': resolved})
    finally:
        case.close()


class _Recorder:
    """stands for the cherab.openadas.repository package inside install.py"""
    class _U:
        DEFAULT_REPOSITORY_PATH = '/default_repo'
    utility = _U()

    def __init__(self):
        self.calls = []

    def __getattr__(self, name):
        if name.startswith('update_'):
            return lambda rates, repository_path=None: self.calls.append((name, rates, repository_path))
        raise AttributeError(name)


# ------------------------------------------------------------------------------------------------ ADF21 / ADF22
def write_adf2x(case, neb, ndt, ntt, zt=1):
    """published ADF21/ADF22 layout: I5 / 1PE9.3 header fields, values 8 per line in 10-character fields"""
    T = case.tok
    svref, tref, eref, dref = T.sci('svref', 9), T.sci('tref', 9), T.sci('eref', 9), T.sci('dref', 9)
    lines = ['%5d /SVREF=%s /SPEC=H  /DATE=01/01/99 /CODE=ADAS310' % (zt, svref[0])]
    lines.append('-' * 80)
    lines.append('%5d%5d /TREF=%s' % (neb, ndt, tref[0]))
    lines.append('-' * 80)
    eb = [T.sci('eb_%d' % i) for i in range(neb)]
    dt = [T.sci('dt_%d' % i) for i in range(ndt)]
    lines += _rows([e[0] for e in eb], 8)
    lines += _rows([d[0] for d in dt], 8)
    lines.append('-' * 80)
    sv = [[None] * ndt for _ in range(neb)]
    for j in range(ndt):
        col = []
        for i in range(neb):
            txt, v = T.sci('sv_e%d_d%d' % (i, j))
            sv[i][j] = v
            col.append(txt)
        lines += _rows(col, 8)
    lines.append('-' * 80)
    lines.append('%5d /EREF=%s /NREF=%s' % (ntt, eref[0], dref[0]))
    lines.append('-' * 80)
    tt = [T.sci('tt_%d' % i) for i in range(ntt)]
    lines += _rows([t[0] for t in tt], 8)
    lines.append('-' * 80)
    svt = [T.sci('svt_%d' % i) for i in range(ntt)]
    lines += _rows([t[0] for t in svt], 8)
    lines.append('-' * 80)
    lines.append('C')
    lines.append('C  VERIFICATION WRITER')
    return lines, dict(e=[v for _, v in eb], n=[v for _, v in dt], t=[v for _, v in tt], sen=sv, st=[v for _, v in svt],
                       eref=eref[1], nref=dref[1], tref=tref[1], sref=svref[1])


ADF2X_Q = [{'neb': a, 'ndt': b, 'ntt': c} for (a, b, c) in [(1, 1, 1), (8, 8, 8), (9, 7, 13), (25, 26, 12), (16, 17, 1)]]
ADF2X_T = [{'neb': a, 'ndt': b, 'ntt': c} for a in (1, 2, 7, 8, 9, 16, 17, 25) for b in (1, 7, 8, 9, 17, 26) for c in (1, 8, 9, 12, 24)]


@harness('C08', name='adf21_adf22', universe=_universe, tiers={'quick': ADF2X_Q + ADF2X_T[::6], 'thorough': ADF2X_T},
         functions=[P + 'utility.parse_adas2x_rate', P + 'utility.readvalues', P + 'adf21.parse_adf21', P + 'adf22.parse_adf22bmp', P + 'adf22.parse_adf22bme',
                    INST + '.install_adf21', INST + '.install_adf22bmp', INST + '.install_adf22bme'],
         cover=['parsed', 'installed'],
         bounds={'grid': 'numbers of beam energies, target densities and target temperatures concrete per job (quick: 5 shapes up to 25x26x12; thorough: 240 shapes)',
                 'values': 'every number in the file is a symbolic real'},
         stubs=['float(numeral): the numeral\'s symbolic value', 'repository.update_*: recording stub'], outside=COMMON_OUT)
def adf21_adf22(ex, uni, neb, ndt, ntt):
    case = Case(ex, uni)
    try:
        lines, want = write_adf2x(case, neb, ndt, ntt)
        case.write('adf21/bms97#h/bms97#h_c6.dat', lines)
        inst = uni.load(INST)
        rec = _Recorder()
        inst.repository = rec
        ex.cover('parsed')
        for kind in ('bms', 'bmp', 'bme'):
            del rec.calls[:]
            if kind == 'bms':
                inst.install_adf21(H, C, 6, 'adf21/bms97#h/bms97#h_c6.dat', repository_path='/repo_x', adas_path=case.dir)
                upd, norm = 'update_beam_stopping_rates', 1e-6
            elif kind == 'bmp':
                inst.install_adf22bmp(H, 2, C, 6, 'adf21/bms97#h/bms97#h_c6.dat', repository_path='/repo_x', adas_path=case.dir)
                upd, norm = 'update_beam_population_rates', 1
            else:
                inst.install_adf22bme(H, C, 6, (3, 2), 'adf21/bms97#h/bms97#h_c6.dat', repository_path='/repo_x', adas_path=case.dir)
                upd, norm = 'update_beam_emission_rates', 1e-6
            ok = len(rec.calls) == 1 and rec.calls[0][0] == upd and rec.calls[0][2] == '/repo_x'
            ex.prove(ok, 'adf2x-install:%s->repository.%s(repository_path)' % (kind, upd))
            if not ok:
                continue
            r = rec.calls[0][1]
            try:
                d = {'bms': lambda: r[H][C][6], 'bmp': lambda: r[H][2][C][6], 'bme': lambda: r[H][C][6][(3, 2)]}[kind]()
                keyed = isinstance(d, dict) and 'sen' in d
            except Exception:
                keyed = False
            ex.prove(keyed, 'adf2x:%s-keyed-by-(beam,[metastable],target,charge,[transition])' % kind)
            if not keyed:
                continue
            ex.prove(_eq_table(ex, d['e'], want['e']), 'adf2x:beam-energy-axis')
            ex.prove(_eq_table(ex, d['n'], [v * 1e6 for v in want['n']]), 'adf2x:density-axis==cm^-3*1e6')
            ex.prove(_eq_table(ex, d['t'], want['t']), 'adf2x:temperature-axis')
            ex.prove(_eq_table(ex, d['sen'], [[norm * v for v in row] for row in want['sen']]), 'adf2x:sen[energy,density]==file-column-per-density*normalisation')
            ex.prove(_eq_table(ex, d['st'], [norm * v for v in want['st']]), 'adf2x:st==temperature-scan*normalisation')
            ex.prove(ex.all([ex.eq(d['eref'], want['eref']), ex.eq(d['nref'], want['nref'] * 1e6), ex.eq(d['tref'], want['tref']), ex.eq(d['sref'], norm * want['sref'])]),
                     'adf2x:reference-values')
        ex.cover('installed')
        ex.sample({'neb': neb, 'ndt': ndt, 'ntt': ntt})
    finally:
        case.close()


# ------------------------------------------------------------------------------------------------ ADF12
def write_adf12(case, blocks):
    """published ADF12 layout: I5 block count; per block a text header carrying the transition, then 6-per-line 10-character fields:
    QEFREF; 5 reference parameters; 5 counts; ENER(24) QENER(24) TIEV(12) QTIEV(12) DENSI(24) QDENSI(24) ZEFF(12) QZEFF(12) BMAG(12) QBMAG(12)"""
    T = case.tok
    lines = ['%5d' % len(blocks)]
    want = []
    for b, (trans, counts) in enumerate(blocks):
        hdr = ' C+6  H+0 (1)/ RECEIVER, DONOR (STATE) /N=%2d-%2d  /' % trans
        hdr = hdr[:38].ljust(38) + '%2d-%2d' % trans + '  / VERIFICATION WRITER'
        lines.append(hdr)
        qref = T.sci('b%d_qefref' % b, 10, 'D')
        lines.append(qref[0])
        refs = [T.sci('b%d_%s' % (b, n), 10, 'D') for n in ('ebref', 'tiref', 'niref', 'zeref', 'bref')]
        lines += _rows([r[0] for r in refs], 6)
        lines += _rows(['%10d' % c for c in counts], 6)
        w = {'qref': qref[1]}
        for nm, v in zip(('ebref', 'tiref', 'niref', 'zref', 'bref'), refs):
            w[nm] = v[1]
        for (nm, qn, size), cnt in zip((('eb', 'qeb', 24), ('ti', 'qti', 12), ('ni', 'qni', 24), ('z', 'qz', 12), ('b', 'qb', 12)), counts):
            for name in (nm, qn):
                fields, vals = [], []
                for k in range(size):
                    if k < cnt:
                        txt, v = T.sci('b%d_%s_%d' % (b, name, k), 10, 'D')
                        vals.append(v)
                    else:
                        txt = '  0.00D+00'
                    fields.append(txt)
                lines += _rows(fields, 6)
                w[name] = vals
        want.append((trans, w))
    lines.append('C')
    lines.append('C  VERIFICATION WRITER')
    return lines, want


ADF12_Q = [{'blocks': b} for b in [(((2, 1), (1, 1, 1, 1, 1)),), (((8, 7), (24, 12, 24, 12, 12)), ((3, 2), (6, 7, 13, 5, 1))),
                                   (((10, 9), (7, 6, 5, 12, 11)), ((9, 8), (23, 1, 19, 2, 6)), ((4, 2), (12, 12, 12, 6, 3)))]]
ADF12_T = ADF12_Q + [{'blocks': (((n + 1, n), (a, b, c, d, e)), ((n + 2, n), (e + 1, d, a, b, c)))} for n in (1, 9, 11)
                     for (a, b, c, d, e) in [(1, 1, 1, 1, 1), (6, 6, 6, 6, 6), (7, 7, 7, 7, 7), (12, 12, 12, 12, 11), (13, 1, 24, 12, 5), (24, 12, 18, 11, 2), (23, 11, 23, 11, 11)]]


@harness('C08', name='adf12', universe=_universe, tiers={'quick': ADF12_Q + ADF12_T[len(ADF12_Q)::3], 'thorough': ADF12_T},
         functions=[P + 'adf12.parse_adf12', P + 'adf12._parse_block', P + 'utility.readvalues', INST + '.install_adf12'], cover=['parsed', 'installed'],
         bounds={'blocks': '1-3 transition blocks with concrete section lengths (1..24 / 1..12) per job', 'values': 'every number in the file is a symbolic real'},
         stubs=['float(numeral): the numeral\'s symbolic value', 'repository.update_*: recording stub'],
         outside=COMMON_OUT + ['the columns of the transition in the block header follow the parser (no independent format source available offline)'])
def adf12(ex, uni, blocks):
    case = Case(ex, uni)
    try:
        lines, want = write_adf12(case, blocks)
        case.write('adf12/qef93#h/qef93#h_c6.dat', lines)
        inst = uni.load(INST)
        rec = _Recorder()
        inst.repository = rec
        inst.install_adf12(H, 1, C, 6, 'adf12/qef93#h/qef93#h_c6.dat', repository_path='/repo_x', adas_path=case.dir)
        ex.cover('parsed')
        ok = len(rec.calls) == 1 and rec.calls[0][0] == 'update_beam_cx_rates' and rec.calls[0][2] == '/repo_x'
        ex.prove(ok, 'adf12-install->repository.update_beam_cx_rates(repository_path)')
        if not ok:
            return
        r = rec.calls[0][1]
        try:
            tab = r[H][C][6]
            keyed = sorted(tab.keys()) == sorted(t for t, _ in want)
        except Exception:
            keyed = False
        ex.prove(keyed, 'adf12:keyed-by-(donor,receiver,charge)-with-one-entry-per-transition-block')
        if not keyed:
            return
        for trans, w in want:
            d = tab[trans]
            ex.prove(list(d.keys()) == [1], 'adf12:entry-per-donor-metastable')
            d = d[1]
            for k, f in (('eb', 1), ('ti', 1), ('ni', 1e6), ('z', 1), ('b', 1), ('qeb', 1e-6), ('qti', 1e-6), ('qni', 1e-6), ('qz', 1e-6), ('qb', 1e-6)):
                ex.prove(_eq_table(ex, d[k], [v * f if f != 1 else v for v in w[k]]), 'adf12:%s==first-n-values-of-its-section%s' % (k, '' if f == 1 else '*%g' % f))
            ex.prove(ex.all([ex.eq(d['ebref'], w['ebref']), ex.eq(d['tiref'], w['tiref']), ex.eq(d['niref'], w['niref'] * 1e6), ex.eq(d['zref'], w['zref']),
                             ex.eq(d['bref'], w['bref']), ex.eq(d['qref'], w['qref'] * 1e-6)]), 'adf12:reference-values')
        ex.cover('installed')
        ex.sample({'blocks': [list(b[0]) + list(b[1]) for b in blocks]})
    finally:
        case.close()


# ------------------------------------------------------------------------------------------------ ADF15
TYPES = {'EXCIT': 'excitation', 'RECOM': 'recombination', 'CHEXC': 'thermalcx'}
CONFIGS = {1: ('1S2 2S1', '2', 0, '0.5'), 2: ('1S2 2P1', '2', 1, '0.5'), 3: ('1S2 2P1', '2', 1, '1.5'), 4: ('1S2 3S1', '2', 0, '0.5'), 5: ('1S2 3D1', '2', 2, '2.5')}
LNAME = {0: 'S', 1: 'P', 2: 'D', 3: 'F'}


def _cfg_name(i):
    c = CONFIGS[i]
    return '%s %s%s%s' % (c[0].lower(), c[1], LNAME[c[2]], c[3])


def write_adf15(case, header, blocks, file_order=None, drop_block=None):
    """published ADF15 layout: block count + '/... PHOTON EMISSIVITY COEFFICIENTS/' header; per block 'wavelength A  n_ne n_te /FILMEM = /TYPE = /INDM = /ISEL = k',
    densities, temperatures and n_ne rows of n_te coefficients, 8 per line; comment trailer with the ISEL / WAVELENGTH / TRANSITION / TYPE index"""
    T = case.tok
    lines = ['%5d    /C 2 PHOTON EMISSIVITY COEFFICIENTS/' % len(blocks)]
    want = {}
    order = file_order or list(range(len(blocks)))
    info = {}
    body = {}
    for k, (typ, levels, n_ne, n_te) in enumerate(blocks):
        isel = k + 1
        wl_txt, wl = T.ang('wl_%d' % isel)
        blk = ['%8s A%5d%5d /FILMEM = bndlev  /TYPE = %-5s  /INDM = T/ISEL =%5d' % (wl_txt, n_ne, n_te, typ, isel)]
        dens = [T.sci('b%d_ne_%d' % (isel, i), 10) for i in range(n_ne)]
        temp = [T.sci('b%d_te_%d' % (isel, i), 10) for i in range(n_te)]
        blk += _rows([d[0] for d in dens], 8, '')
        blk += _rows([t[0] for t in temp], 8, '')
        tab = [[None] * n_te for _ in range(n_ne)]
        for i in range(n_ne):
            row = []
            for j in range(n_te):
                txt, v = T.sci('b%d_r_%d_%d' % (isel, i, j), 10)
                tab[i][j] = v
                row.append(txt)
            blk += _rows(row, 8, '')
        body[k] = blk
        info[isel] = (typ, levels, wl_txt, wl, [d[1] for d in dens], [t[1] for t in temp], tab)
    for k in order:
        if drop_block is not None and k == drop_block:
            continue
        lines += body[k]
    lines.append('C' + '-' * 79)
    lines.append('C')
    if header == 'full':
        lines.append('C  Configuration             (2S+1)L(w-1/2)       Energy (cm**-1)')
        lines.append('C  -------------             --------------       ---------------')
        for i, c in CONFIGS.items():
            lines.append('C  %4d  %-18s (%s)%d(%4s)  %17.1f' % (i, c[0], c[1], c[2], c[3], 1000.0 * i))
        lines.append('C')
    lines.append('C  ISEL  WAVELENGTH      TRANSITION       TYPE')
    lines.append('C  ----  ----------  -----------------    -----')
    for isel in sorted(info):
        typ, levels, wl_txt, wl, dens, temp, tab = info[isel]
        if header == 'hydrogen':
            lines.append('C  %4d.  %9s    N=%2d - N=%2d      %s' % (isel, wl_txt, levels[0], levels[1], typ))
            key = levels
        elif header == 'hydrogen-like':
            lines.append('C  %4d.  %9s   %3d(2)1( 1.5)-%3d(2)0( 0.5)  %s' % (isel, wl_txt, levels[0], levels[1], typ))
            key = levels
        else:
            cu, cl = CONFIGS[levels[0]], CONFIGS[levels[1]]
            lines.append('C  %4d.  %9s   %3d(%s)%d(%4s)-%3d(%s)%d(%4s)  %s' % (isel, wl_txt, levels[0], cu[1], cu[2], cu[3], levels[1], cl[1], cl[2], cl[3], typ))
            key = (_cfg_name(levels[0]), _cfg_name(levels[1]))
        want[isel] = (TYPES[typ], key, wl, dens, temp, tab)
    lines.append('C')
    lines.append('C' + '-' * 79)
    return lines, want


def _adf15_jobs(thorough):
    jobs = []
    shapes = [(1, 1), (8, 8), (9, 3), (5, 17)] if not thorough else [(a, b) for a in (1, 7, 8, 9, 16, 17, 24) for b in (1, 7, 8, 9, 17, 29)]
    for header in ('hydrogen', 'hydrogen-like', 'full'):
        lv = {'hydrogen': [(2, 1), (3, 2), (3, 1), (4, 2)], 'hydrogen-like': [(2, 1), (3, 2), (3, 1), (4, 2)], 'full': [(2, 1), (3, 1), (4, 2), (5, 3)]}[header]
        for si, (a, b) in enumerate(shapes):
            typs = ['EXCIT', 'RECOM', 'CHEXC', 'EXCIT']
            nb = 1 + si % 4 if not thorough else 1 + (a + b) % 4
            blocks = tuple((typs[k], lv[k], a if k % 2 == 0 else max(1, a - 1), b if k % 2 == 0 else b + 1) for k in range(nb))
            jobs.append({'header': header, 'blocks': blocks, 'shuffle': bool((si + len(header)) % 2)})
    return jobs


@harness('C08', name='adf15', universe=_universe, tiers={'quick': _adf15_jobs(False) + _adf15_jobs(True)[::5], 'thorough': _adf15_jobs(False) + _adf15_jobs(True)},
         functions=[P + 'adf15.parse_adf15', P + 'adf15._extract_rate', P + 'adf15._group_by_block', P + 'adf15._scrape_metadata_hydrogen', P + 'adf15._scrape_metadata_hydrogen_like',
                    P + 'adf15._scrape_metadata_full', INST + '.install_adf15', INST + '._thermalcx_adf15_2dto3d_converter'],
         cover=['parsed', 'installed', 'absent-block-rejected'],
         bounds={'blocks': '1-4 blocks of types EXCIT/RECOM/CHEXC with concrete n_ne x n_te per job, in index order or reversed file order; hydrogen, hydrogen-like and '
                           'full-configuration comment headers (quick: 12 files, thorough: 126 files up to 24x29)', 'values': 'every number in the file is a symbolic real'},
         stubs=['float(numeral): the numeral\'s symbolic value', 'repository.update_*: recording stub'], outside=COMMON_OUT)
def adf15(ex, uni, header, blocks, shuffle):
    case = Case(ex, uni)
    try:
        order = list(range(len(blocks)))
        if shuffle:
            order.reverse()
        lines, want = write_adf15(case, header, blocks, order)
        elem, charge = (H, 0) if header == 'hydrogen' else ((C, 5) if header == 'hydrogen-like' else (C, 2))
        rel = 'adf15/pec96#c/pec96#c_pju#c2.dat'
        case.write(rel, lines)
        mod = uni.load(P + 'adf15')
        rates, wavelengths = mod.parse_adf15(elem, charge, os.path.join(case.dir, rel), header_format=None if header != 'hydrogen-like' else None)
        ex.cover('parsed')
        seen = set()
        for isel, (cls, key, wl, dens, temp, tab) in want.items():
            try:
                d = rates[cls][elem][charge][key]
                found = isinstance(d, dict) and 'rate' in d
            except Exception:
                found = False
            ex.prove(found, 'adf15:block-assigned-to-its-transition-and-type(%s)' % header)
            if not found:
                continue
            seen.add((cls, key))
            ex.prove(_eq_table(ex, d['ne'], [v * 1e6 for v in dens]), 'adf15:ne==cm^-3*1e6')
            ex.prove(_eq_table(ex, d['te'], temp), 'adf15:te')
            ex.prove(_eq_table(ex, d['rate'], [[v * 1e-6 for v in row] for row in tab]), 'adf15:rate[ne,te]==row(ne)-column(te)*1e-6')
            ex.prove(ex.eq(wavelengths[elem][charge][key], wl / 10), 'adf15:wavelength==Angstrom/10')
        n_entries = sum(len(rates[cls][elem][charge]) for cls in rates if elem in rates[cls] and charge in rates[cls][elem])
        ex.prove(n_entries == len(seen), 'adf15:no-other-entries')
        # wrong element type
        try:
            mod.parse_adf15('carbon', charge, os.path.join(case.dir, rel))
            ok = False
        except TypeError:
            ok = True
        ex.prove(ok, 'adf15:non-Element=>TypeError')
        # install routing
        inst = uni.load(INST)
        rec = _Recorder()
        inst.repository = rec
        inst.install_adf15(elem, charge, rel, repository_path='/repo_x', adas_path=case.dir)
        names = [c[0] for c in rec.calls]
        has_cx = any(w[0] == 'thermalcx' for w in want.values())
        ex.prove(names == (['update_pec_thermal_cx_rates'] if has_cx else []) + ['update_pec_rates', 'update_wavelengths'] and all(c[2] == '/repo_x' for c in rec.calls),
                 'adf15-install:routing(thermal-cx,pec,wavelengths)-with-repository_path')
        by = {c[0]: c[1] for c in rec.calls}
        if 'update_pec_rates' in by:
            ex.prove('thermalcx' not in by['update_pec_rates'], 'adf15-install:thermal-cx-not-stored-as-pec')
        if has_cx and 'update_pec_thermal_cx_rates' in by:
            cx = by['update_pec_thermal_cx_rates']
            for isel, (cls, key, wl, dens, temp, tab) in want.items():
                if cls != 'thermalcx':
                    continue
                try:
                    d = cx[H][0][elem][charge + 1][key]
                    found = isinstance(d, dict) and 'rate' in d
                except Exception:
                    found = False
                ex.prove(found, 'adf15-install:thermal-cx-keyed-by-(H,0,receiver,charge+1,transition)')
                if found:
                    ex.prove(_eq_table(ex, d['rate'], [[[v * 1e-6, v * 1e-6] for v in row] for row in tab]), 'adf15-install:thermal-cx-rate-constant-in-donor-temperature')
                    ex.prove(_eq_table(ex, d['ne'], [v * 1e6 for v in dens]) and _eq_table(ex, d['te'], temp), 'adf15-install:thermal-cx-axes')
        ex.cover('installed')
        # a transition whose block is absent from the file is an error, not a silent mis-read
        if len(blocks) >= 1:
            lines2, _ = write_adf15(Case2(case), header, blocks, order, drop_block=order[-1])
            rel2 = 'adf15/pec96#c/pec96#c_pju#c2_missing.dat'
            case.write(rel2, lines2)
            try:
                mod.parse_adf15(elem, charge, os.path.join(case.dir, rel2))
                ok = False
            except RuntimeError:
                ok = True
            ex.prove(ok, 'adf15:absent-block=>RuntimeError')
            ex.cover('absent-block-rejected')
        # not an ADF15 file
        case.write('adf15/garbage.dat', ['this is not an adf15 file', 'at all'])
        try:
            mod.parse_adf15(elem, charge, os.path.join(case.dir, 'adf15/garbage.dat'))
            ok = False
        except ValueError:
            ok = True
        ex.prove(ok, 'adf15:invalid-header=>ValueError')
        ex.sample({'header': header, 'blocks': [[b[0], list(b[1]), b[2], b[3]] for b in blocks], 'reversed_file_order': shuffle})
    finally:
        case.close()


class Case2:
    """second file in the same case: fresh numerals, values not needed"""
    def __init__(self, case):
        self.tok = _Plain(case.tok)


class _Plain:
    def __init__(self, tok):
        self.t = tok

    def sci(self, name, width=10, exp_char='E'):
        self.t.n += 1
        k = self.t.n
        mant = 1000 + (k % 9000)
        text = '%d.%03d%s+%02d' % (mant // 1000, mant % 1000, exp_char, 3 + (k // 9000))
        return text.rjust(width), float(text.replace('D', 'E'))

    def ang(self, name):
        self.t.n += 1
        text = '%.1f' % (50000.0 + self.t.n * 0.7)
        return text, float(text)

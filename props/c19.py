"""C19 — element / isotope registry (elements.pyx, line.pyx translated and executed)."""
import types
import z3

from symx.harness import harness
from symx import core
from symx.core import B, S, I, R
from symx.universe import Universe
from symx.rt import HashTerm

ELEMENTS = 'cherab.core.atomic.elements'
LINE = 'cherab.core.atomic.line'

# independent periodic table (IUPAC), symbol -> Z
PERIODIC = dict(zip(
    ('H He Li Be B C N O F Ne Na Mg Al Si P S Cl Ar K Ca Sc Ti V Cr Mn Fe Co Ni Cu Zn Ga Ge As Se Br Kr Rb Sr Y Zr Nb Mo '
     'Tc Ru Rh Pd Ag Cd In Sn Sb Te I Xe Cs Ba La Ce Pr Nd Pm Sm Eu Gd Tb Dy Ho Er Tm Yb Lu Hf Ta W Re Os Ir Pt Au Hg Tl '
     'Pb Bi Po At Rn Fr Ra Ac Th Pa U Np Pu Am Cm Bk Cf Es Fm Md No Lr').split(), range(1, 104)))


class _SysStub:
    def __init__(self, uni):
        self.uni = uni

    @property
    def modules(self):
        return self.uni.modules


def _universe():
    u = Universe()
    u.stubs['sys'] = _SysStub(u)
    return u


def _table(uni):
    m = uni.load(ELEMENTS)
    g = m.__dict__
    els = sorted((v for k, v in g.items() if type(v) is m.Element), key=lambda e: (e.atomic_number, e.name))
    iso = sorted((v for k, v in g.items() if type(v) is m.Isotope), key=lambda e: (e.atomic_number, e.mass_number, e.name))
    # de-duplicate aliases (same object under two module names)
    els = list({id(e): e for e in els}.values())
    iso = list({id(e): e for e in iso}.values())
    return m, els, iso


def _validate(uni, **kw):
    """the translated module builds the same registry as the compiled one"""
    import cherab.core.atomic.elements as real
    m, els, iso = _table(uni)
    n = 0
    for e in els + iso:
        r = getattr(real, [k for k, v in m.__dict__.items() if v is e][0])
        if (r.name, r.symbol, r.atomic_number, r.atomic_weight) != (e.name, e.symbol, e.atomic_number, e.atomic_weight):
            raise core.HarnessError('translator validation: registry differs for %s' % e.name)
        n += 1
    return n


class _Tab:
    """finite table as an SMT function (symbolic mode) or a list (replay)"""
    def __init__(self, ex, name, values, kind):
        self.ex, self.values, self.kind = ex, values, kind

    _intern = {}

    def _val(self, v):
        if self.kind == 'str':
            # strings are interned to integers (equal strings <-> equal ids): keeps the injectivity queries in LIA
            return z3.IntVal(_Tab._intern.setdefault(v, len(_Tab._intern)))
        if self.kind == 'int':
            return z3.IntVal(int(v))
        return core._rv(v)

    def __call__(self, i):
        if not self.ex.sym:
            return self.values[int(i)]
        it = i.t if isinstance(i, I) else z3.IntVal(i)
        vals = [self._val(v) for v in self.values]

        def build(lo, hi):   # balanced if-then-else tree over the index
            if lo == hi:
                return vals[lo]
            mid = (lo + hi) // 2
            return z3.If(it <= mid, build(lo, mid), build(mid + 1, hi))
        return build(0, len(vals) - 1)


def _b(x):
    return B(x) if isinstance(x, z3.BoolRef) else bool(x)


@harness('C19', name='registry_table', universe=_universe, validate=_validate,
         tiers={'quick': [{}], 'thorough': [{}]},
         functions=[ELEMENTS + ' (module body: every Element(...) / Isotope(...) definition)', ELEMENTS + '._build_element_index',
                    ELEMENTS + '._build_isotope_index'],
         cover=['table-extracted'],
         bounds={'table': 'whole registry, exhaustive: indices are solver variables ranging over all entries'},
         stubs=['sys.modules -> the universe module registry'], outside=[])
def registry_table(ex, uni):
    m, els, iso = _table(uni)
    ex.cover('table-extracted')
    ne, ni = len(els), len(iso)
    allsp = els + iso
    T = lambda name, vals, kind: _Tab(ex, name, vals, kind)
    name_all = T('name_all', [e.name for e in allsp], 'str')
    sym_e = T('sym_e', [e.symbol for e in els], 'str')
    sym_i = T('sym_i', [e.symbol for e in iso], 'str')
    z_e = T('z_e', [e.atomic_number for e in els], 'int')
    pt_e = T('pt_e', [PERIODIC.get(e.symbol, -1) for e in els], 'int')
    z_i = T('z_i', [e.atomic_number for e in iso], 'int')
    zel_i = T('zel_i', [e.element.atomic_number for e in iso], 'int')
    a_i = T('a_i', [e.mass_number for e in iso], 'int')
    w_i = T('w_i', [e.atomic_weight for e in iso], 'real')
    i = ex.int('i', 0, len(allsp) - 1)
    j = ex.int('j', 0, len(allsp) - 1)
    ex.prove(ex.implies(_b(i.t != j.t if ex.sym else i != j), ex.not_(_b(name_all(i) == name_all(j)))), 'no-two-species-share-a-name')
    p = ex.int('p', 0, ne - 1)
    q = ex.int('q', 0, ne - 1)
    ex.prove(ex.implies(_b(p.t != q.t if ex.sym else p != q), ex.not_(_b(sym_e(p) == sym_e(q)))), 'no-two-elements-share-a-symbol')
    ex.prove(_b(z_e(p) == pt_e(p)), 'atomic-number-matches-periodic-table')
    r = ex.int('r', 0, ni - 1)
    s = ex.int('s', 0, ni - 1)
    ex.prove(ex.implies(_b(r.t != s.t if ex.sym else r != s), ex.not_(_b(sym_i(r) == sym_i(s)))), 'no-two-isotopes-share-a-symbol')
    ex.prove(_b(z_i(r) == zel_i(r)), 'isotope-has-its-elements-atomic-number')
    ex.prove(_b(a_i(r) >= z_i(r)), 'mass-number>=atomic-number')
    w, a = w_i(r), a_i(r)
    if ex.sym:
        d = w - z3.ToReal(a)
        ex.prove(B(z3.And(d < z3.RealVal('1/10'), d > z3.RealVal('-1/10'))), 'atomic-weight-within-0.1u-of-mass-number')
    else:
        ex.prove(abs(w - a) < 0.1, 'atomic-weight-within-0.1u-of-mass-number')
    # every identifier key maps to its own object in the index the code built (nothing was overwritten)
    eidx, iidx = m._element_index, m._isotope_index
    pos_e = {id(e): k for k, e in enumerate(els)}
    pos_i = {id(e): k for k, e in enumerate(iso)}
    for kind, keyf in (('symbol', lambda e: e.symbol.lower()), ('name', lambda e: e.name.lower()),
                       ('atomic-number', lambda e: str(e.atomic_number))):
        got = T('eidx_' + kind, [pos_e.get(id(eidx.get(keyf(e))), -1) for e in els], 'int')
        ex.prove(_b(got(p) == (p.t if ex.sym else p)), 'element-index[%s]->same-object' % kind)
    for kind, keyf in (('symbol', lambda e: e.symbol.lower()), ('name', lambda e: e.name.lower()),
                       ('element-symbol+A', lambda e: e.element.symbol.lower() + str(e.mass_number)),
                       ('element-name+A', lambda e: e.element.name.lower() + str(e.mass_number))):
        got = T('iidx_' + kind, [pos_i.get(id(iidx.get(keyf(e))), -1) for e in iso], 'int')
        ex.prove(_b(got(r) == (r.t if ex.sym else r)), 'isotope-index[%s]->same-object' % kind)
    ex.prove(all(type(v) is m.Element for v in eidx.values()) and all(type(v) is m.Isotope for v in iidx.values()),
             'index-values-have-the-right-type')
    ex.sample({'elements': ne, 'isotopes': ni, 'element_index_keys': len(eidx), 'isotope_index_keys': len(iidx)})


def _case_variant(ex, text, candidates):
    """symbolic string ranging over all 2^n upper/lower-case spellings of `text`"""
    if ex.sym:
        parts = []
        for k, ch in enumerate(text):
            if ch.lower() != ch.upper():
                bvar = ex.bool('up_%d' % k)
                parts.append(z3.If(bvar.t, z3.StringVal(ch.upper()), z3.StringVal(ch.lower())))
            else:
                parts.append(z3.StringVal(ch))
        t = parts[0] if len(parts) == 1 else z3.Concat(*parts)
        return _Spelling(t, text.lower(), candidates)
    out = ''
    for k, ch in enumerate(text):
        if ch.lower() != ch.upper():
            out += ch.upper() if ex.bool('up_%d' % k) else ch.lower()
        else:
            out += ch
    return out


class _Spelling(S):
    """S whose lower() is known by construction and which behaves as a dict key by forking on equality with the keys"""
    __slots__ = ('cands',)

    def __init__(self, t, lower_known, cands):
        S.__init__(self, t, lower_known)
        self.cands = cands

    def __hash__(self):
        for c in self.cands:
            if len(c) == len(self.lower_known) and c.lower() == self.lower_known and bool(self == c):
                self._picked = c
                return hash(c)
        return 0


KINDS_E = ['symbol', 'name', 'atomic-number']
KINDS_I = ['symbol', 'name', 'element-symbol+A', 'element-name+A', 'element+number']


@harness('C19', name='lookup_spelling', universe=_universe,
         tiers={'quick': [{'what': 'element', 'kind': k} for k in KINDS_E] + [{'what': 'isotope', 'kind': k} for k in KINDS_I],
                'thorough': [{'what': 'element', 'kind': k} for k in KINDS_E] + [{'what': 'isotope', 'kind': k} for k in KINDS_I]},
         functions=[ELEMENTS + '.lookup_element', ELEMENTS + '.lookup_isotope'], cover=['looked-up', 'unknown-key-rejected'],
         bounds={'species': 'every registry entry (index is a solver variable, enumerated by forking)',
                 'spelling': 'all 2^n upper/lower-case variants of the identifier, as solver booleans per letter'},
         stubs=['str(): symbolic strings pass through'], outside=['identifiers that are not case variants of a registered key'],
         max_paths=100000)
def lookup_spelling(ex, uni, what, kind):
    m, els, iso = _table(uni)
    pool = els if what == 'element' else iso
    ex.max_concretize = 2000
    i = ex.int('i', 0, len(pool) - 1)
    obj = pool[int(i)]
    number = None
    if what == 'element':
        ident = {'symbol': obj.symbol, 'name': obj.name, 'atomic-number': str(obj.atomic_number)}[kind]
        cands = list(m._element_index)
    else:
        ident = {'symbol': obj.symbol, 'name': obj.name, 'element-symbol+A': obj.element.symbol + str(obj.mass_number),
                 'element-name+A': obj.element.name + str(obj.mass_number), 'element+number': obj.element.name}[kind]
        cands = list(m._isotope_index) + list(m._element_index)
        if kind == 'element+number':
            number = obj.mass_number
    v = _case_variant(ex, ident, cands)
    try:
        if what == 'element':
            got = m.lookup_element(v)
        elif number is None:
            got = m.lookup_isotope(v)
        else:
            got = m.lookup_isotope(v, number)
    except ValueError:
        got = None
    ex.cover('looked-up')
    ex.prove(got is obj, 'lookup(%s:%s)-returns-that-object' % (what, kind))
    # an object looks itself up; an unknown key raises ValueError
    ex.prove((m.lookup_element(obj) if what == 'element' else m.lookup_isotope(obj)) is obj, 'lookup(object)-is-identity')
    if int(i) == 0:
        for bad in ('', 'xx', 'h ', '0', '-1', 'hydrogen0'):
            try:
                (m.lookup_element if what == 'element' else m.lookup_isotope)(bad)
                ok = False
            except ValueError:
                ok = True
            ex.cover('unknown-key-rejected')
            ex.prove(ok, 'unknown-key-raises-ValueError')
    if int(i) < 3:
        ex.sample({'species': obj.name, 'identifier': ident, 'letters': sum(1 for c in ident if c.lower() != c.upper())})


def _sym_element(ex, m, tag):
    return m.Element(ex.string('name' + tag), ex.string('symbol' + tag), ex.int('Z' + tag), ex.real('w' + tag))


def _truth(ex, v):
    """python truth value of a comparison result (forks on symbolic booleans)"""
    return bool(v)


def _flat(h):
    out = []
    for f in (h.fields if isinstance(h, HashTerm) else (h,)):
        if isinstance(f, HashTerm):
            out += _flat(f)
        elif isinstance(f, tuple):
            for x in f:
                out += _flat(x)
        else:
            out.append(f)
    return out


def _same(ex, a, b):
    if isinstance(a, (S, I, R)) or isinstance(b, (S, I, R)):
        return a == b
    return a == b


@harness('C19', name='equality_and_hash', universe=_universe,
         tiers={'quick': [{'cls': c} for c in ('Element', 'Isotope', 'Line')], 'thorough': [{'cls': c} for c in ('Element', 'Isotope', 'Line')]},
         functions=[ELEMENTS + '.Element.__richcmp__', ELEMENTS + '.Element.__hash__', ELEMENTS + '.Isotope.__richcmp__',
                    ELEMENTS + '.Isotope.__hash__', LINE + '.Line.__richcmp__', LINE + '.Line.__hash__'],
         cover=['equal', 'unequal'],
         bounds={'fields': 'all fields fully symbolic (strings, integers, reals); Line transitions: pairs of symbolic strings'},
         stubs=['hash(): kept structural (tuple of field terms) so that equal-hash is decided as equality of hashed fields'],
         outside=['CPython tuple hashing itself'])
def equality_and_hash(ex, uni, cls):
    m = uni.load(ELEMENTS)
    if cls == 'Element':
        a, b = _sym_element(ex, m, '_a'), _sym_element(ex, m, '_b')
        fa = [a.name, a.symbol, a.atomic_number, a.atomic_weight]
        fb = [b.name, b.symbol, b.atomic_number, b.atomic_weight]
    elif cls == 'Isotope':
        ea, eb = _sym_element(ex, m, '_ea'), _sym_element(ex, m, '_eb')
        a = m.Isotope(ex.string('name_a'), ex.string('symbol_a'), ea, ex.int('A_a'), ex.real('w_a'))
        b = m.Isotope(ex.string('name_b'), ex.string('symbol_b'), eb, ex.int('A_b'), ex.real('w_b'))
        fa = [a.name, a.symbol, a.atomic_weight, a.mass_number, ea.name, ea.symbol, ea.atomic_number, ea.atomic_weight]
        fb = [b.name, b.symbol, b.atomic_weight, b.mass_number, eb.name, eb.symbol, eb.atomic_number, eb.atomic_weight]
    else:
        ln = uni.load(LINE)
        ea, eb = _sym_element(ex, m, '_ea'), _sym_element(ex, m, '_eb')
        ca, cb = ex.int('charge_a', 0), ex.int('charge_b', 0)
        ex.assume(ca <= ea.atomic_number - 1)
        ex.assume(cb <= eb.atomic_number - 1)
        ta = (ex.string('up_a'), ex.string('lo_a'))
        tb = (ex.string('up_b'), ex.string('lo_b'))
        a, b = ln.Line(ea, ca, ta), ln.Line(eb, cb, tb)
        fa = [ea.name, ea.symbol, ea.atomic_number, ea.atomic_weight, ca, ta[0], ta[1]]
        fb = [eb.name, eb.symbol, eb.atomic_number, eb.atomic_weight, cb, tb[0], tb[1]]
    eq = _truth(ex, a == b)
    ne = _truth(ex, a != b)
    fields_equal = ex.all([x == y for x, y in zip(fa, fb)])
    ex.cover('equal' if eq else 'unequal')
    ex.prove(fields_equal if eq else ex.not_(fields_equal), 'eq<=>all-fields-equal')
    ex.prove(ne == (not eq), 'eq-and-ne-are-complementary')
    ha, hb = a.__hash__(), b.__hash__()
    if eq:
        xa, xb = _flat(ha), _flat(hb)
        ex.prove(len(xa) == len(xb) and bool(ex.all([x == y for x, y in zip(xa, xb)]) if ex.sym else xa == xb) if not ex.sym
                 else (ex.all([x == y for x, y in zip(xa, xb)]) if len(xa) == len(xb) else False),
                 'equal-objects-hash-equal-fields')
    # reflexivity and symmetry
    ex.prove(_truth(ex, a == a) and not _truth(ex, a != a), 'reflexive')
    ex.prove(_truth(ex, b == a) == eq, 'symmetric')
    ex.sample({'class': cls, 'equal': eq})

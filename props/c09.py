"""C09 — ionisation balance (cherab/tools/plasmas/ionisation_balance.py, run from source on object arrays)."""
import types
import numpy as np

from symx.harness import harness
from symx import core
from symx.universe import Universe
from symx import rs_model

MOD = 'cherab.tools.plasmas.ionisation_balance'


class _Interp:
    def __init__(self, *a):
        self.args = a


def _universe(lsq=None):
    stubs = {'EFITEquilibrium': object, 'AtomicData': object, 'Element': object,
             'AxisymmetricMapper': lambda f: ('axisym', f),
             'Interpolator1DArray': _Interp, 'Interpolator2DArray': _Interp}
    u = Universe(stubs=stubs)
    return u


def _rates(ex, Z, with_tcx):
    """rate 'interpolators': positive symbols, each records the (n_e, t_e) it was evaluated at"""
    calls = []

    def mk(name):
        v = ex.real(name, pos=True)

        def f(ne, te):
            calls.append((name, ne, te))
            return v
        return f, v
    S, A, C = {}, {}, {}
    ion, rec, tcx = {}, {}, {}
    for i in range(Z):
        ion[i], S[i] = mk('S_%d' % i)
    for i in range(1, Z + 1):
        rec[i], A[i] = mk('alpha_%d' % i)
    if with_tcx:
        for i in range(1, Z + 1):
            tcx[i], C[i] = mk('C_%d' % i)
    return ion, rec, (tcx if with_tcx else None), S, A, C, calls


@harness('C09', name='balance_point',
         tiers={'quick': [{'Z': z, 'tcx': t} for z in (1, 2, 3, 4) for t in (False, True)],
                'thorough': [{'Z': z, 'tcx': t} for z in (1, 2, 3, 4, 5, 6, 8, 10) for t in (False, True)]},
         functions=[MOD + '._fractional_abundance_point'], universe=_universe,
         cover=['matrix-assembled'],
         bounds={'Z': 'atomic number concrete per job', 'values': 'all rates > 0, n_e > 0, n_D >= 0 symbolic reals'},
         stubs=['scipy.optimize.lsq_linear: contract = a minimiser of |Ax-b|^2 inside the box (so zero residual when an '
                'exact solution lies inside the box, which the solver shows by exhibiting one)',
                'rate interpolators: positive symbols recording their arguments'],
         outside=['scipy lsq_linear numerics', 'floating-point rounding'])
def balance_point(ex, uni, Z, tcx):
    ib = uni.load(MOD)
    ne = ex.real('n_e', pos=True)
    te = ex.real('t_e', pos=True)
    nd = ex.real('n_D', nonneg=True) if tcx else 0
    ion, rec, ctx, S, A, C, calls = _rates(ex, Z, tcx)
    cap = {}
    sym = ex.sym

    def lsq_linear(Amat, b, bounds=(-np.inf, np.inf), **kw):
        cap['A'], cap['b'], cap['bounds'] = Amat, b, bounds
        n = Amat.shape[1]
        x = np.array([ex.real('x_%d' % k) for k in range(n)], dtype=object if sym else float)
        return {'x': x}
    ib.lsq_linear = lsq_linear
    el = types.SimpleNamespace(atomic_number=Z, name='el')
    frac = ib._fractional_abundance_point(el, ne, te, ion, rec, ctx, nd)
    ex.cover('matrix-assembled')
    Am, b, bounds = cap['A'], cap['b'], cap['bounds']
    n = Z + 1
    # --- documented rate equations, written independently (per unit n_e the code multiplies the matrix by n_e)
    r = nd / ne if tcx else 0

    def loss(i):   # effective recombination of stage i (to i-1)
        return A[i] + (r * C[i] if tcx else 0)
    exp_ = [[0] * n for _ in range(n + 1)]
    for i in range(n):
        if i > 0:
            exp_[i][i - 1] = S[i - 1] * ne
        d = 0
        if i < Z:
            d = d + S[i]
        if i > 0:
            d = d + loss(i)
        exp_[i][i] = -d * ne
        if i < Z:
            exp_[i][i + 1] = loss(i + 1) * ne
    for j in range(n):
        exp_[n][j] = 1
    ok_shape = tuple(Am.shape) == (n + 1, n) and tuple(np.shape(b)) == (n + 1,)
    ex.prove(ok_shape, 'system-shape')
    for i in range(n + 1):
        for j in range(n):
            ex.prove(ex.eq(Am[i, j], exp_[i][j]), 'matrix-entry==rate-equation')
        ex.prove(ex.eq(b[i], ne if i == n else 0), 'rhs-entry')
    ex.prove(ex.all([ex.eq(bounds[0], 0), ex.eq(bounds[1], ne)]), 'box-bounds==(0,n_e)')
    for (nm, a1, a2) in calls:
        ex.prove(ex.all([ex.eq(a1, ne), ex.eq(a2, te)]), 'rates-evaluated-at-(n_e,t_e)')
    # --- an exact solution exists inside the box: y_0 = t, y_{i+1} = y_i S_i / loss(i+1), t fixed by sum = n_e
    w = [1]
    for i in range(Z):
        w.append(w[i] * S[i] / loss(i + 1))
    tot = sum(w[1:], w[0])
    y = [wi * ne / tot for wi in w]
    for i in range(n + 1):
        lhs = sum((Am[i, j] * y[j] for j in range(1, n)), Am[i, 0] * y[0])
        ex.prove(ex.eq(lhs, b[i]), 'exact-solution-exists(row)')
    ex.prove(ex.all([ex.all([ex.le(0, yi), ex.le(yi, ne)]) for yi in y]), 'exact-solution-inside-box')
    # --- contract of the solver: zero residual, inside the box
    xv = [frac[k] * ne for k in range(n)]
    if ex.sym:
        for i in range(n + 1):
            lhs = sum((Am[i, j] * xv[j] for j in range(1, n)), Am[i, 0] * xv[0])
            ex.assume(lhs == b[i], 'lsq_linear contract: zero residual (an exact solution inside the box exists, proved)')
        for k in range(n):
            ex.assume((xv[k] >= 0) & (xv[k] <= ne), 'lsq_linear contract: solution inside the box')
    else:
        # float replay: use the exact solution as the solver's answer
        frac = np.array([float(yi) / float(ne) for yi in y])
    ex.prove(ex.all([ex.all([ex.le(0, frac[k]), ex.le(frac[k], 1)]) for k in range(n)]), 'fractions-in-[0,1]')
    ex.prove(ex.eq(sum((frac[k] for k in range(1, n)), frac[0]), 1), 'fractions-sum-to-one')
    for z in range(Z):
        ex.prove(ex.eq(frac[z] * S[z], frac[z + 1] * loss(z + 1)), 'steady-state-balance')
    ex.sample({'Z': Z, 'tcx': tcx, 'matrix_shape': list(Am.shape)})


class _F1(rs_model.Function1D):
    def __init__(self, f):
        self.f = f

    def evaluate(self, x):
        return self.f(x)


class _F2(rs_model.Function2D):
    def __init__(self, f):
        self.f = f

    def evaluate(self, x, y):
        return self.f(x, y)


# 'func1d_int': the free variable is an integer-typed array (a channel / flux-surface index): sampled profile values must
# still be stored as doubles
KINDS_Q = ['scalar', 'array', 'func1d', 'func1d_int']
KINDS_T = ['scalar', 'array', 'func1d', 'func1d_int', 'func2d', 'func2d_int']


@harness('C09', name='entry_points',
         tiers={'quick': [{'kind': k, 'donor': d} for k in KINDS_Q for d in (False, True)],
                'thorough': [{'kind': k, 'donor': d} for k in KINDS_T for d in (False, True)]},
         functions=[MOD + '.' + f for f in ('fractional_abundance', 'from_elementdensity', 'match_plasma_neutrality',
                                            '_parameters_to_numpy', '_assign_donor_density', '_fractional_abundance',
                                            '_from_elementdensity', '_from_element_density_point',
                                            '_match_plasma_neutrality', '_match_element_density_point',
                                            'interpolators1d_fractional', 'interpolators1d_from_elementdensity',
                                            'interpolators1d_match_plasma_neutrality',
                                            'equilibrium_map3d_fractional')],
         universe=_universe, cover=['entry-points-ran'],
         bounds={'element': 'Z=2', 'profile length': '2 points (arrays / free variable, float- or integer-typed); 2x1 for Function2D',
                 'values': 'densities, temperatures, rates symbolic'},
         stubs=['_fractional_abundance_point replaced by a recording uninterpreted function F_k(n_e, t_e, n_D, tcx?) of its '
                'arguments (its own correctness is the subject of balance_point)',
                'atomic data provider returns tagged rate objects', 'Interpolator1DArray / map3d: recording stubs'],
         outside=['raysect interpolators beyond node values', 'equilibrium mapping'])
def entry_points(ex, uni, kind, donor):
    ib = uni.load(MOD)
    Z = 2
    el = types.SimpleNamespace(atomic_number=Z, name='el')
    don = types.SimpleNamespace(atomic_number=1, name='don') if donor else None
    sym = ex.sym
    dt = object if sym else float

    class AD:
        def ionisation_rate(s, e, c):
            return ('ion', e.name, c)

        def recombination_rate(s, e, c):
            return ('rec', e.name, c)

        def thermal_cx_rate(s, d, dc, e, c):
            return ('tcx', d.name, dc, e.name, c)
    npts = 2
    DC = 2      # a non-default donor charge: a front-end that drops the argument falls back to 0

    def point(element, n_e, t_e, coef_ion, coef_recom, coef_tcx=None, tcx_donor_density=0):
        ok = element is el and coef_ion == {i: ('ion', 'el', i) for i in range(Z)} and \
            coef_recom == {i: ('rec', 'el', i) for i in range(1, Z + 1)}
        if coef_tcx is not None:
            ok = ok and coef_tcx == {i: ('tcx', 'don', DC, 'el', i) for i in range(1, Z + 1)}
        ex.prove(bool(ok), 'point-solver-gets-this-element-rate-tables')
        nd_eff = tcx_donor_density if coef_tcx is not None else 0
        flag = 1 if coef_tcx is not None else 0
        return np.array([ex.uf('F_%d' % k, n_e, t_e, nd_eff, flag, pos=True) for k in range(Z + 1)], dtype=dt)
    ib._fractional_abundance_point = point

    def F(k, ne_, te_, nd_):
        return ex.uf('F_%d' % k, ne_, te_, nd_ if donor else 0, 1 if donor else 0, pos=True)
    ne_v = [ex.real('ne_%d' % i, pos=True) for i in range(npts)]
    te_v = [ex.real('te_%d' % i, pos=True) for i in range(npts)]
    nd_v = [ex.real('nd_%d' % i, nonneg=True) for i in range(npts)]
    nel_v = [ex.real('nel_%d' % i, nonneg=True) for i in range(npts)]
    other_v = [[ex.real('sp_%d_%d' % (z, i), nonneg=True) for i in range(npts)] for z in range(2)]   # a Z=1 species
    fv = None
    if kind == 'scalar':
        npts_eff = 1
        ne, te, nd, nel = ne_v[0], te_v[0], nd_v[0], nel_v[0]
        other = [np.array([other_v[0][0]], dtype=dt), np.array([other_v[1][0]], dtype=dt)]
        other = np.array([[other_v[0][0]], [other_v[1][0]]], dtype=dt)
        idxs = [(0,)]
    elif kind == 'array':
        npts_eff = npts
        ne, te, nd, nel = [np.array(v, dtype=dt) for v in (ne_v, te_v, nd_v, nel_v)]
        other = np.array(other_v, dtype=dt)
        idxs = [(i,) for i in range(npts)]
    elif kind in ('func1d', 'func1d_int'):
        npts_eff = npts
        fv = np.array([0.25, 0.75]) if kind == 'func1d' else np.array([3, 7])
        pick = lambda vals: _F1(lambda x: vals[0] if x == fv[0] else vals[1])
        ne, te, nd, nel = pick(ne_v), pick(te_v), pick(nd_v), pick(nel_v)
        other = np.array(other_v, dtype=dt)
        idxs = [(i,) for i in range(npts)]
    else:
        npts_eff = npts
        fv = [np.array([0.25, 0.75]), np.array([1.5])] if kind == 'func2d' else [np.array([3, 7]), np.array([2])]
        pick = lambda vals: _F2(lambda x, y: vals[0] if x == fv[0][0] else vals[1])
        ne, te, nd, nel = pick(ne_v), pick(te_v), pick(nd_v), pick(nel_v)
        other = np.array(other_v, dtype=dt).reshape(2, 2, 1)
        idxs = [(i, 0) for i in range(npts)]
    kw = dict(tcx_donor=don, tcx_donor_n=nd if donor else None, tcx_donor_charge=DC)
    fkw = dict(free_variable=fv) if fv is not None else {}

    fa = ib.fractional_abundance(AD(), el, ne, te, **kw, **fkw)
    de = ib.from_elementdensity(AD(), el, nel, ne, te, **kw, **fkw)
    mp = ib.match_plasma_neutrality(AD(), el, [other], ne, te, **kw, **fkw)
    ex.cover('entry-points-ran')
    ex.prove(sorted(fa) == list(range(Z + 1)) and sorted(de) == list(range(Z + 1)) and sorted(mp) == list(range(Z + 1)),
             'result-keys-are-charge-states')
    for p, idx in enumerate(idxs):
        fr = [F(k, ne_v[p], te_v[p], nd_v[p]) for k in range(Z + 1)]
        for k in range(Z + 1):
            ex.prove(ex.eq(fa[k][idx], fr[k]), 'fractional_abundance==point-solution(n_e,t_e,n_D,donor)')
            ex.prove(ex.eq(de[k][idx], nel_v[p] * fr[k]), 'from_elementdensity==density*fractions(same-arguments)')
        # neutrality matching: n_e left for this element after the given species, shared by the mean charge
        left = ne_v[p] - (0 * other_v[0][p] + 1 * other_v[1][p])
        zmean = sum((k * fr[k] for k in range(1, Z + 1)), 0)
        for k in range(Z + 1):
            want = ex.ite(left < 0, 0, left) / zmean * fr[k]
            ex.prove(ex.eq(mp[k][idx], want), 'match_plasma_neutrality==fractions*remaining-charge/mean-charge')
            ex.prove(ex.le(0, mp[k][idx]), 'matched-densities-non-negative')
        charge = sum((k * mp[k][idx] for k in range(1, Z + 1)), 0) + other_v[1][p]
        ex.prove(ex.implies(left >= 0, ex.eq(charge, ne_v[p])), 'matched-charge-equals-n_e')
    if kind in ('func1d', 'func1d_int'):
        # interpolator / mapping front-ends forward everything, including the donor
        it = ib.interpolators1d_fractional(AD(), el, fv, ne, te, **kw)
        itd = ib.interpolators1d_from_elementdensity(AD(), el, fv, nel, ne, te, **kw)
        itm = ib.interpolators1d_match_plasma_neutrality(AD(), el, fv, [other], ne, te, **kw)
        eq = types.SimpleNamespace(map3d=lambda f: ('map3d', f))
        m3 = ib.equilibrium_map3d_fractional(AD(), el, eq, fv, ne, te, **kw)
        for k in range(Z + 1):
            for p in range(npts):
                ex.prove(ex.all([ex.eq(it[k].args[1][p], fa[k][p]), ex.eq(it[k].args[0][p], fv[p])]),
                         'interpolators1d_fractional-nodes==fractional_abundance')
                ex.prove(ex.eq(itd[k].args[1][p], de[k][p]), 'interpolators1d_from_elementdensity-nodes==from_elementdensity')
                ex.prove(ex.eq(itm[k].args[1][p], mp[k][p]), 'interpolators1d_match_plasma_neutrality-nodes==match_plasma_neutrality')
                ex.prove(ex.eq(m3[k][1].args[1][p], fa[k][p]), 'equilibrium_map3d_fractional-profile==fractional_abundance')
    ex.sample({'kind': kind, 'donor': donor, 'points': npts_eff})

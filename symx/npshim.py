"""numpy as seen by code loaded in the universe.

Real numpy, except that array *creation* yields object arrays while a symbolic run is active (so proxies can be
stored), and the few numpy C-API names used by the .pyx files map to their Python equivalents.  All arithmetic is
numpy's own (object arrays dispatch to the proxies' operators).
"""
import numpy as np

from . import core
from .core import is_sym, MATH, R, I


def _symrun():
    c = core.CUR
    return c is not None and c.sym


def _floaty(dtype):
    if dtype is None:
        return True
    if getattr(dtype, '__name__', '') == 'sx_float':
        return True
    try:
        return np.issubdtype(np.dtype(dtype), np.floating)
    except TypeError:
        return False


def _has_sym(obj):
    if is_sym(obj):
        return True
    if isinstance(obj, np.ndarray):
        return obj.dtype == object
    if isinstance(obj, (list, tuple)):
        return any(_has_sym(o) for o in obj)
    return False


def _inty(dtype):
    try:
        return dtype is not None and dtype is not object and np.issubdtype(np.dtype(dtype), np.integer)
    except TypeError:
        return False


def _trunc_any(v):
    """numpy's float -> integer cast on assignment: truncation toward zero, element-wise"""
    if isinstance(v, np.ndarray):
        if v.dtype != object and not np.issubdtype(v.dtype, np.floating):
            return v
        out = np.empty(v.shape, dtype=object)
        for idx in np.ndindex(v.shape):
            out[idx] = _trunc_any(v[idx])
        return out
    if isinstance(v, (list, tuple)):
        return [_trunc_any(e) for e in v]
    if is_sym(v):
        return core.trunc_to_int(v)
    if isinstance(v, float):
        return int(v)
    return v


class IntObjArray(np.ndarray):
    """object array standing for an integer-typed numpy array during a symbolic run (np.zeros_like(int_array), ...):
    stores are cast like numpy casts a float to an integer element (truncation toward zero); arithmetic gives plain arrays"""

    def __setitem__(self, key, value):
        np.ndarray.__setitem__(self, key, _trunc_any(value))

    def __array_ufunc__(self, ufunc, method, *inputs, **kwargs):
        plain = lambda a: a.view(np.ndarray) if isinstance(a, IntObjArray) else a
        inputs = tuple(plain(a) for a in inputs)
        if 'out' in kwargs:
            kwargs['out'] = tuple(plain(a) for a in kwargs['out'])
        return getattr(ufunc, method)(*inputs, **kwargs)


def _int_obj(shape, fill):
    a = np.empty(shape, dtype=object)
    a.fill(fill)
    return a.view(IntObjArray)


class ObjMatrix:
    """np.matrix over object dtype (numpy's own matrix class mishandles flatten/asarray for object entries)"""
    def __init__(self, a):
        self.a = np.atleast_2d(a)

    @property
    def shape(self):
        return self.a.shape

    def __mul__(self, o):
        ob = o.a if isinstance(o, ObjMatrix) else np.asarray(o)
        if ob.ndim == 1:
            ob = ob.reshape(-1, 1)
        return ObjMatrix(self.a @ ob)

    def flatten(self):
        return ObjMatrix(self.a.reshape(1, -1))

    def __array__(self, dtype=None, copy=None):
        return self.a

    def __getitem__(self, k):
        return self.a[k]


class _Linalg:
    def __init__(self, shim):
        self._shim = shim

    def __getattr__(self, name):
        return getattr(np.linalg, name)


class NumpyShim:
    def __init__(self):
        self.linalg = _Linalg(self)
        self.overrides = {}

    def __getattr__(self, name):
        if name in self.overrides:
            return self.overrides[name]
        return getattr(np, name)

    # ---- creation
    def zeros(self, shape, dtype=None, order='C'):
        if _symrun() and _floaty(dtype):
            a = np.empty(shape, dtype=object)
            a.fill(0.0)
            return a
        return np.zeros(shape, dtype=dtype or float, order=order)

    def empty(self, shape, dtype=None, order='C'):
        return self.zeros(shape, dtype, order)

    def ones(self, shape, dtype=None, order='C'):
        if _symrun() and _floaty(dtype):
            a = np.empty(shape, dtype=object)
            a.fill(1.0)
            return a
        return np.ones(shape, dtype=dtype or float, order=order)

    def full(self, shape, fill_value, dtype=None):
        if is_sym(fill_value) or (_symrun() and _floaty(dtype)):
            a = np.empty(shape, dtype=object)
            a.fill(fill_value)
            return a
        return np.full(shape, fill_value, dtype=dtype)

    def zeros_like(self, a, dtype=None):
        if _symrun() and self._int_prototype(a, dtype):
            return _int_obj(np.shape(a), 0)
        return self.zeros(np.shape(a), dtype or getattr(a, 'dtype', None) if not _symrun() else None)

    @staticmethod
    def _int_prototype(a, dtype):
        """the new array takes an integer element type from its prototype (numpy *_like semantics)"""
        if dtype is not None:
            return _inty(dtype)
        if isinstance(a, IntObjArray):
            return True
        if isinstance(a, np.ndarray):
            return _inty(a.dtype)
        if isinstance(a, (int, np.integer)) and not isinstance(a, bool):
            return True
        if isinstance(a, (list, tuple)) and a and not _has_sym(a):
            return _inty(np.asarray(a).dtype)
        return False

    def ones_like(self, a, dtype=None):
        if _symrun() and self._int_prototype(a, dtype):
            return _int_obj(np.shape(a), 1)
        if not _symrun():
            return np.ones_like(a, dtype=dtype)
        return self.ones(np.shape(a), None)

    def empty_like(self, a, dtype=None):
        return self.zeros_like(a, dtype)

    def array(self, obj, dtype=None, copy=True, **kw):
        if _has_sym(obj) and (dtype is None or _floaty(dtype) or dtype is object):
            return np.array(obj, dtype=object, copy=copy, **kw)
        if _symrun() and _floaty(dtype) and dtype is not None:
            a = np.array(obj, dtype=dtype, copy=copy, **kw)
            return a.astype(object)
        return np.array(obj, dtype=dtype, copy=copy, **kw)

    def asarray(self, obj, dtype=None, **kw):
        if isinstance(obj, np.ndarray) and obj.dtype == object:
            return obj
        if _has_sym(obj):
            return np.array(obj, dtype=object)
        return np.asarray(obj, dtype=dtype, **kw)

    def ascontiguousarray(self, obj, dtype=None):
        return self.asarray(obj, dtype)

    def fromstring(self, string, dtype=float, count=-1, sep=''):
        if _floaty(dtype):
            dtype = float
        a = np.fromstring(string, dtype=dtype, count=count, sep=sep)
        from . import rt
        if rt.FLOAT_TOKENS and a.dtype.kind == 'f':
            if any(float(v) in rt.FLOAT_TOKENS for v in a.ravel()):
                o = np.empty(a.shape, dtype=object)
                for idx, v in np.ndenumerate(a):
                    o[idx] = rt.FLOAT_TOKENS.get(float(v), float(v))
                return o
        return a

    def gradient(self, f, *varargs, axis=None, edge_order=1):
        """numpy.gradient for unit spacing (numpy's own formulae: central differences inside, first / second order one-sided at the
        edges); numpy's implementation casts object arrays to float64"""
        f = np.asarray(f)
        if f.dtype != object:
            return np.gradient(f, *varargs, axis=axis, edge_order=edge_order)
        if varargs or axis is not None:
            raise NotImplementedError('gradient shim: unit spacing over all axes only')
        outs = []
        for ax in range(f.ndim):
            n = f.shape[ax]
            if n < edge_order + 1:
                raise ValueError('Shape of array too small to calculate a numerical gradient, at least (edge_order + 1) elements are required.')
            g = np.empty(f.shape, dtype=object)
            fm = np.moveaxis(f, ax, 0)
            gm = np.moveaxis(g, ax, 0)
            for i in range(1, n - 1):
                gm[i] = (fm[i + 1] - fm[i - 1]) / 2.0
            if edge_order == 1:
                gm[0] = fm[1] - fm[0]
                gm[n - 1] = fm[n - 1] - fm[n - 2]
            else:
                gm[0] = -1.5 * fm[0] + 2.0 * fm[1] - 0.5 * fm[2]
                gm[n - 1] = 0.5 * fm[n - 3] - 2.0 * fm[n - 2] + 1.5 * fm[n - 1]
            outs.append(g)
        return outs[0] if f.ndim == 1 else outs

    def matrix(self, data, *a, **k):
        if _has_sym(data):
            return ObjMatrix(np.array(data, dtype=object))
        return np.matrix(data, *a, **k)

    float64 = np.float64
    double = np.double

    def linspace(self, start, stop, num=50, endpoint=True, retstep=False, dtype=None):
        if is_sym(start) or is_sym(stop) or _symrun():
            num = int(num)
            div = (num - 1) if endpoint else num
            a = np.empty(num, dtype=object)
            step = (stop - start) / div if div > 0 else 0.0
            for i in range(num):
                a[i] = start + i * step
            if endpoint and num > 1:
                a[num - 1] = stop
            return (a, step) if retstep else a
        return np.linspace(start, stop, num, endpoint=endpoint, retstep=retstep, dtype=dtype)

    def arange(self, *a, **k):
        r = np.arange(*a, **k)
        if _symrun() and r.dtype.kind == 'f':
            return r.astype(object)
        return r

    # ---- elementwise math on proxies / object arrays
    def _ufunc(self, name, x, *rest):
        f = getattr(MATH, name)
        if is_sym(x):
            return f(x, *rest)
        if isinstance(x, np.ndarray) and x.dtype == object:
            return np.frompyfunc(lambda e: f(e, *rest), 1, 1)(x)
        return getattr(np, name)(x, *rest)

    def sqrt(self, x):
        return self._ufunc('sqrt', x)

    def exp(self, x):
        return self._ufunc('exp', x)

    def log(self, x):
        return self._ufunc('log', x)

    def log10(self, x):
        return self._ufunc('log10', x)

    def sin(self, x):
        return self._ufunc('sin', x)

    def cos(self, x):
        return self._ufunc('cos', x)

    def tan(self, x):
        return self._ufunc('tan', x)

    def floor(self, x):
        return self._ufunc('floor', x)

    def ceil(self, x):
        return self._ufunc('ceil', x)

    def abs(self, x):
        if is_sym(x):
            return abs(x)
        return np.abs(x)
    absolute = abs
    fabs = abs

    def maximum(self, a, b):
        from .rt import sx_max
        if _has_sym(a) or _has_sym(b):
            return np.frompyfunc(lambda x, y: sx_max(x, y), 2, 1)(a, b)
        return np.maximum(a, b)

    def minimum(self, a, b):
        from .rt import sx_min
        if _has_sym(a) or _has_sym(b):
            return np.frompyfunc(lambda x, y: sx_min(x, y), 2, 1)(a, b)
        return np.minimum(a, b)

    def deg2rad(self, x):
        if _has_sym(x):
            import math as _m
            return x * _m.pi / 180.0
        return np.deg2rad(x)

    def rad2deg(self, x):
        if _has_sym(x):
            import math as _m
            return x / _m.pi * 180.0
        return np.rad2deg(x)

    def isnan(self, x):
        if _has_sym(x):
            if isinstance(x, np.ndarray):
                return np.zeros(x.shape, dtype=bool)
            return False
        return np.isnan(x)

    def isfinite(self, x):
        if _has_sym(x):
            if isinstance(x, np.ndarray):
                return np.ones(x.shape, dtype=bool)
            return True
        return np.isfinite(x)

    def isscalar(self, x):
        return is_sym(x) or np.isscalar(x)

    # ---- numpy C-API used in .pyx files
    def import_array(self):
        return None

    NPY_FLOAT64 = 'f8'
    NPY_DOUBLE = 'f8'
    NPY_INT32 = 'i4'
    NPY_INT64 = 'i8'
    NPY_INT = 'i8'

    @staticmethod
    def _dims(nd, dims):
        if isinstance(dims, int):
            return (dims,)
        return tuple(int(d) for d in list(dims)[:nd])

    def PyArray_SimpleNew(self, nd, dims, typ):
        return self.zeros(self._dims(nd, dims), dtype=typ)

    def PyArray_ZEROS(self, nd, dims, typ, fortran=0):
        return self.zeros(self._dims(nd, dims), dtype=typ)

    def PyArray_EMPTY(self, nd, dims, typ, fortran=0):
        return self.zeros(self._dims(nd, dims), dtype=typ)

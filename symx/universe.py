"""Universe: private module registry in which cherab modules are (re)loaded from /repo's *source* on every run.

.pyx/.pxd -> pyx2py -> exec ; .py -> exec of the unmodified source.  `import`/`cimport` statements of the loaded code
go through Universe.importer: harness stubs first, cherab.* -> universe modules (lazy), libc.math -> symx math,
numpy -> object-array shim, raysect -> models for the few classes that must carry symbolic values, else real import.
"""
import os
import re
import sys
import types
import builtins
import importlib

from . import core, pyx2py, rt
from .core import HarnessError

ROOT = os.environ.get('SYMX_REPO', '/repo')


class Unresolved:
    """placeholder for a name that exists only at C level (cimported type / function never modelled)"""
    def __init__(self, mod, name):
        self._mod, self._name = mod, name

    def __call__(self, *a, **k):
        raise HarnessError('call of unmodelled C-level name %s.%s' % (self._mod, self._name))

    def __getattr__(self, a):
        if a.startswith('__'):
            raise AttributeError(a)
        raise HarnessError('use of unmodelled C-level name %s.%s.%s' % (self._mod, self._name, a))

    def __mro_entries__(self, bases):
        return (object,)

    def __repr__(self):
        return '<Unresolved %s.%s>' % (self._mod, self._name)


class UModule:
    """module object of the universe backed by a LazyGlobals dict"""
    def __init__(self, name, g):
        object.__setattr__(self, '_g', g)
        object.__setattr__(self, '__name__', name)

    @property
    def __dict__(self):
        return object.__getattribute__(self, '_g')

    def __getattr__(self, a):
        g = object.__getattribute__(self, '_g')
        try:
            return g[a]
        except KeyError:
            raise AttributeError(a)

    def __setattr__(self, a, v):
        object.__getattribute__(self, '_g')[a] = v

    def __dir__(self):
        g = object.__getattribute__(self, '_g')
        return [k for k in g if isinstance(k, str)]

    def __repr__(self):
        return '<UModule %s>' % object.__getattribute__(self, '__name__')


class Namespace:
    """lazy module-like object: attribute access is resolved by the universe"""
    def __init__(self, uni, name):
        object.__setattr__(self, '_uni', uni)
        object.__setattr__(self, '_name', name)

    def __getattr__(self, attr):
        if attr.startswith('__') and attr.endswith('__'):
            if attr == '__all__':
                return self._uni.all_names(self._name)
            if attr == '__name__':
                return self._name
            raise AttributeError(attr)
        return self._uni.resolve(self._name, attr)

    def __repr__(self):
        return '<Namespace %s>' % self._name


class LazyGlobals(dict):
    """module globals whose lazily imported names resolve on first use (breaks cimport-only import cycles)"""
    def __missing__(self, key):
        lz = dict.get(self, '_sx_lazy_table_')
        if lz and key in lz:
            mod, name, uni = lz[key]
            v = uni.resolve(mod, name)
            self[key] = v
            return v
        raise KeyError(key)


def _lazy(g, mod, level, names):
    uni = g['_sx_uni_']
    if level:
        pkg = g.get('__package__') or ''
        parts = pkg.split('.')
        if level > 1:
            parts = parts[:len(parts) - (level - 1)]
        mod = '.'.join(parts + ([mod] if mod else []))
    tab = g.setdefault('_sx_lazy_table_', {})
    for nm, alias in names:
        if alias in g and not isinstance(g, LazyGlobals):
            continue
        tab[alias] = (mod, nm, uni)
        if dict.__contains__(g, alias):
            dict.__delitem__(g, alias)


def _touch(g, names):
    """resolve lazily imported names now (class bodies read globals without the lazy hook)"""
    for n in names:
        try:
            g[n]
        except KeyError:
            pass


class _SysStub:
    """`sys` as seen by loaded code: sys.modules is the universe registry (elements.pyx looks itself up there)"""
    def __init__(self, uni):
        self._uni = uni

    @property
    def modules(self):
        return self._uni.modules

    def __getattr__(self, a):
        return getattr(sys, a)


class Universe:
    def __init__(self, stubs=None, root=ROOT, real_modules=()):
        """stubs: {'Name': obj} or {('module', 'Name'): obj}; real_modules: module-name prefixes to import for real"""
        self.root = root
        self.stubs = dict(stubs or {})
        self.stubs.setdefault('sys', _SysStub(self))
        self.modules = {}
        self.sources = {}
        self.loading = set()
        self.real_modules = tuple(real_modules)
        self.loaded_files = []
        self.sx = rt.Runtime()
        from . import rs_model, npshim
        self.rs = rs_model
        self.np = npshim.NumpyShim()
        self.cython = rt.CythonShim()
        self._bi = dict(builtins.__dict__)
        self._bi['__import__'] = self.importer
        self._bi.update(rt.BUILTIN_OVERRIDES)
        self._bi['print'] = lambda *a, **k: None   # logging/printing of the code under test is not the subject

    # ------------------------------------------------------------------ files
    def find(self, modname):
        base = os.path.join(self.root, *modname.split('.'))
        for ext in ('.pyx', '.py'):
            if os.path.isfile(base + ext):
                return base + ext, False
        if os.path.isfile(base + '.pxd'):
            return base + '.pxd', False
        if os.path.isdir(base):
            return base, True
        return None, False

    def source(self, path):
        if path not in self.sources:
            if path.endswith('.py'):
                with open(path) as f:
                    src = f.read()
            else:
                src = pyx2py.translate(path, self.root.rstrip('/') + '/')
            self.sources[path] = src
        return self.sources[path]

    # ------------------------------------------------------------------ loading
    def load(self, modname):
        if modname in self.modules:
            return self.modules[modname]
        path, is_pkg = self.find(modname)
        if path is None:
            raise ImportError('universe: no source for ' + modname)
        if is_pkg:
            m = Namespace(self, modname)
            self.modules[modname] = m
            return m
        src = self.source(path)
        g = LazyGlobals()
        m = UModule(modname, g)
        g['__name__'] = modname
        g['__file__'] = path
        g['__builtins__'] = self._bi
        g['_sx_'] = self.sx
        g['_sx_uni_'] = self
        g['_sx_lazy_'] = _lazy
        g['_sx_touch_'] = _touch
        g['__package__'] = modname.rsplit('.', 1)[0]
        self.modules[modname] = m
        self.loaded_files.append(os.path.relpath(path, self.root))
        code = compile(src, path + ('' if path.endswith('.py') else '<translated>'), 'exec')
        try:
            exec(code, g)
        except BaseException:
            del self.modules[modname]
            raise
        return m

    # ------------------------------------------------------------------ name resolution
    _def_re = None

    def defines(self, modname, name):
        """does the (translated) source of module `modname` define `name` at top level?"""
        path, is_pkg = self.find(modname)
        if path is None or is_pkg:
            return False
        src = self.source(path)
        pat = re.compile(r'^(?:def|class)\s+%s\b|^%s\s*=|^from\s+\S+\s+import\s+.*\b%s\b|^import\s+.*\bas\s+%s\b'
                         % ((re.escape(name),) * 4), re.M)
        return bool(pat.search(src))

    def pkg_inits(self, pkg):
        base = os.path.join(self.root, *pkg.split('.'))
        res = []
        for fn in ('__init__.pxd', '__init__.py'):
            p = os.path.join(base, fn)
            if os.path.isfile(p):
                with open(p) as f:
                    res.append(f.read())
        return res

    def find_in_package(self, pkg, name, seen=None):
        """which module below package `pkg` exports `name` (following the __init__ star/explicit imports)"""
        seen = seen if seen is not None else set()
        if pkg in seen:
            return None
        seen.add(pkg)
        for text in self.pkg_inits(pkg):
            for m in re.finditer(r'^from\s+(\.*)([\w\.]*)\s+c?import\s+(.+)$', text, re.M):
                dots, mod, what = m.group(1), m.group(2), m.group(3).split('#')[0].strip()
                if dots:
                    parts = pkg.split('.')
                    up = len(dots) - 1
                    basepkg = '.'.join(parts[:len(parts) - up]) if up else pkg
                    full = basepkg + ('.' + mod if mod else '')
                else:
                    full = mod
                pairs = []
                for w in what.strip('()').split(','):
                    w = w.strip()
                    if not w:
                        continue
                    if ' as ' in w:
                        o_, a_ = [t.strip() for t in w.split(' as ')]
                    else:
                        o_, a_ = w, w
                    pairs.append((o_, a_))
                alias = {a_: o_ for o_, a_ in pairs}
                if not full.startswith('cherab'):
                    if name in alias:
                        return ('ext', full, alias[name])
                    continue
                if what == '*' or name in alias:
                    path, is_pkg = self.find(full)
                    if path is None:
                        continue
                    if is_pkg:
                        r = self.find_in_package(full, alias.get(name, name), seen)
                        if r:
                            return r
                    elif self.defines(full, alias.get(name, name)):
                        return ('ext', full, alias.get(name, name)) if name in alias and alias[name] != name else full
        return None

    def all_names(self, modname):
        m = self.load(modname)
        if isinstance(m, Namespace):
            return []
        g = m.__dict__
        return [k for k in list(g) + list(g.get('_sx_lazy_table_', {})) if not k.startswith('_')]

    def resolve(self, modname, name):
        st = self.stubs
        if (modname, name) in st:
            return st[(modname, name)]
        if name in st:
            return st[name]
        top = modname.split('.')[0]
        if top == 'cherab' and not modname.startswith(self.real_modules or ('\0',)):
            path, is_pkg = self.find(modname)
            if path is None:
                raise ImportError('universe: cannot find ' + modname)
            if not is_pkg:
                m = self.load(modname)
                try:
                    return getattr(m, name)
                except AttributeError:
                    return Unresolved(modname, name)
            # package: sub-module or re-exported name
            sub, _ = self.find(modname + '.' + name)
            if sub is not None:
                return self.load(modname + '.' + name)
            where = self.find_in_package(modname, name)
            if where is None:
                return Unresolved(modname, name)
            if isinstance(where, tuple):
                return self.resolve(where[1], where[2])
            return getattr(self.load(where), name)
        if modname == 'libc.math' or modname == 'math' and False:
            return rt.libc_math(name)
        if modname.startswith('libc') or modname.startswith('cpython'):
            return rt.libc_other(modname, name)
        if top == 'numpy':
            return self.np_resolve(modname, name)
        if top == 'raysect':
            if hasattr(self.rs, 'resolve'):
                r = self.rs.resolve(modname, name)
                if r is not None:
                    return r
        if top == 'cython':
            return getattr(self.cython, name)
        try:
            real = importlib.import_module(modname)
        except ImportError:
            return Unresolved(modname, name)
        try:
            return getattr(real, name)
        except AttributeError:
            try:
                return importlib.import_module(modname + '.' + name)
            except ImportError:
                return Unresolved(modname, name)

    def np_resolve(self, modname, name):
        obj = self.np
        for part in modname.split('.')[1:]:
            obj = getattr(obj, part)
        return getattr(obj, name)

    # ------------------------------------------------------------------ __import__ hook
    def importer(self, name, globals=None, locals=None, fromlist=(), level=0):
        if level:
            pkg = (globals or {}).get('__package__') or ''
            parts = pkg.split('.')
            if level > 1:
                parts = parts[:len(parts) - (level - 1)]
            name = '.'.join(parts + ([name] if name else []))
        top = name.split('.')[0]
        if top == 'cython':
            return self.cython
        if not fromlist and name in self.stubs:
            return self.stubs[name]
        if top == 'numpy':
            if fromlist:
                obj = self.np
                for part in name.split('.')[1:]:
                    obj = getattr(obj, part)
                return obj
            return self.np
        routed = top in ('cherab', 'libc', 'raysect', 'cpython') or name in self.stubs_modules()
        if not routed:
            # stubs may name scipy etc.: route only when some requested name is stubbed
            if fromlist and any(((name, f) in self.stubs) for f in fromlist):
                return Namespace(self, name)
            return importlib.__import__(name, globals, locals, fromlist, 0)
        if fromlist:
            if top == 'cherab' and not name.startswith(self.real_modules or ('\0',)):
                path, is_pkg = self.find(name)
                if path is not None and not is_pkg and '*' in fromlist:
                    return self.load(name)
                if path is not None and is_pkg and '*' in fromlist:
                    return self.pkg_star(name)
            return Namespace(self, name)
        return Namespace(self, top)

    def pkg_star(self, pkg):
        """object standing for `from <package> import *`: the names the package __init__ imports explicitly or by star"""
        import types
        ns = types.SimpleNamespace()
        names = []
        for text in self.pkg_inits(pkg):
            for m in re.finditer(r'^from\s+(\.+)([\w\.]*)\s+c?import\s+(.+)$', text, re.M):
                dots, mod, what = m.group(1), m.group(2), m.group(3).split('#')[0].strip()
                parts = pkg.split('.')
                up = len(dots) - 1
                basepkg = '.'.join(parts[:len(parts) - up]) if up else pkg
                full = basepkg + ('.' + mod if mod else '')
                if what == '*':
                    path, is_pkg = self.find(full)
                    if path is None:
                        continue
                    src = self.pkg_star(full) if is_pkg else self.load(full)
                    for k in (getattr(src, '__all__', None) or [k for k in vars(src) if not k.startswith('_')]):
                        setattr(ns, k, getattr(src, k))
                        names.append(k)
                    continue
                for w in what.strip('()').split(','):
                    w = w.strip()
                    if not w:
                        continue
                    o_, a_ = ([t.strip() for t in w.split(' as ')] if ' as ' in w else (w, w))
                    setattr(ns, a_, self.resolve(full, o_))
                    names.append(a_)
        ns.__all__ = names
        return ns

    def stubs_modules(self):
        return {k[0] for k in self.stubs if isinstance(k, tuple)}

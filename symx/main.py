"""entry point: python -m symx.main <ID> [--tier quick|thorough] [--replay FILE] [--only HARNESS] [--jobs N]"""
import os
import sys
import json
import time
import hashlib
import argparse
import importlib
import multiprocessing as mp

VERIF = os.path.dirname(os.path.dirname(os.path.abspath(__file__)))
sys.path.insert(0, VERIF)

from symx import harness as H  # noqa: E402

EXIT_OK, EXIT_VIOLATION, EXIT_HARNESS = 0, 1, 3


def load_known():
    known, fixed = [], []
    p = os.path.join(VERIF, 'known_findings.txt')
    if os.path.exists(p):
        for line in open(p):
            line = line.strip()
            if line.startswith('known:'):
                parts = line[6:].split()
                n = 3 if len(parts) > 2 and parts[2].startswith('match=') else 2
                d = dict(x.split('=', 1) for x in parts[:n])
                d['text'] = ' '.join(parts[n:])
                known.append(d)
            elif line.startswith('fixed:'):
                fixed.append(line)
    return known, fixed


def _job(args):
    prop, hname, params, tier, seed = args
    importlib.import_module('props.' + prop.lower())
    return H.run_job(prop, hname, params, tier, seed)


def _child(conn, job):
    try:
        r = _job(job)
    except BaseException as e:  # noqa
        import traceback
        r = {'harness': job[1], 'params': job[2], 'error': '%s: %s\n%s' % (type(e).__name__, e, traceback.format_exc()[-2000:])}
    try:
        conn.send(r)
    finally:
        conn.close()


def _run_jobs(jobs, nproc, tier):
    """one forked process per job, at most nproc at a time; a job that outlives the in-process limit by a margin is killed and
    reported as inconclusive (a solver call that does not return cannot be stopped from inside)"""
    soft = int(os.environ.get('SYMX_JOB_LIMIT_S', '900' if tier == 'quick' else '5400'))
    hard = soft + 120
    ctx = mp.get_context('fork')
    results = [None] * len(jobs)
    pending = list(range(len(jobs)))
    running = {}
    while pending or running:
        while pending and len(running) < nproc:
            i = pending.pop(0)
            pc, cc = ctx.Pipe(duplex=False)
            pr = ctx.Process(target=_child, args=(cc, jobs[i]))
            pr.start()
            cc.close()
            running[i] = (pr, pc, time.time())
        done = []
        for i, (pr, pc, t0) in running.items():
            if pc.poll(0.02):
                try:
                    results[i] = pc.recv()
                except EOFError:
                    results[i] = {'harness': jobs[i][1], 'params': jobs[i][2], 'error': 'worker died without a result (exit code %s)' % pr.exitcode}
                done.append(i)
            elif not pr.is_alive():
                if pc.poll(0.2):
                    try:
                        results[i] = pc.recv()
                    except EOFError:
                        results[i] = None
                if results[i] is None:
                    results[i] = {'harness': jobs[i][1], 'params': jobs[i][2], 'error': 'worker died without a result (exit code %s)' % pr.exitcode}
                done.append(i)
            elif time.time() - t0 > hard:
                pr.kill()
                results[i] = {'harness': jobs[i][1], 'params': jobs[i][2], 'error': 'BoundExceeded: job killed after %d s (solver call did not return)' % hard}
                done.append(i)
        for i in done:
            pr, pc, _ = running.pop(i)
            pr.join(5)
            pc.close()
        if not done:
            time.sleep(0.05)
    return results


def main(argv=None):
    if hasattr(sys, 'set_int_max_str_digits'):
        sys.set_int_max_str_digits(0)      # counterexample models can carry rationals with thousands of digits
    ap = argparse.ArgumentParser()
    ap.add_argument('prop')
    ap.add_argument('--tier', default=os.environ.get('VERIF_TIER', 'quick'))
    ap.add_argument('--replay')
    ap.add_argument('--only')
    ap.add_argument('--jobs', type=int, default=int(os.environ.get('VERIF_JOBS', '16')))
    ap.add_argument('-v', action='store_true')
    a = ap.parse_args(argv)
    prop = a.prop.upper()
    tier = a.tier if a.tier in ('quick', 'thorough') else 'quick'
    try:
        seed = int(os.environ.get('VERIF_SEED', '0'))
    except ValueError:
        seed = 0
    importlib.import_module('props.' + prop.lower())

    if a.replay:
        ok, detail = H.replay_file(a.replay)
        print('replay %s: %s %s' % (a.replay, 'REPRODUCED' if ok else 'not reproduced', json.dumps(detail, default=str)))
        if ok:
            print('VIOLATION property=%s replay=%s' % (prop, a.replay))
        return EXIT_VIOLATION if ok else EXIT_OK

    t0 = time.time()
    from symx import build
    try:
        build_s = build.ensure_built()
    except RuntimeError as e:
        print('HARNESS-ERROR:', e, file=sys.stderr)
        return EXIT_HARNESS
    hs = H.REGISTRY.get(prop, [])
    jobs = []
    for h in hs:
        if a.only and h.name != a.only:
            continue
        for params in h.tiers.get(tier, h.tiers.get('quick', [{}])):
            jobs.append((prop, h.name, params, tier, seed))
    if not jobs:
        print('no harnesses for', prop)
        return EXIT_HARNESS
    # longest first is unknown; keep declared order
    nproc = max(1, min(a.jobs, len(jobs)))
    if nproc == 1 and os.environ.get('SYMX_INPROCESS'):
        results = [_job(j) for j in jobs]
    else:
        results = _run_jobs(jobs, nproc, tier)

    if a.v:
        for r in sorted(results, key=lambda r: -(r.get('wall_s') or 0)):
            print('  job %s %s wall=%.1fs paths=%s label_s=%s' % (r['harness'], r['params'], r.get('wall_s') or 0, r.get('paths'),
                                                              sorted((r.get('label_s') or {}).items(), key=lambda kv: -kv[1])[:4]))
    known, _fixed = load_known()
    known_list = [k for k in known if k.get('property') == prop]

    def _known_for(key, v):
        """a listed finding covers a violation when the obligation key agrees and - if the entry names a failing input / history with
        match=<text> - that text occurs in the violation's job parameters or recorded history"""
        ctx = json.dumps([v.get('params'), v.get('info')], default=str, sort_keys=True)
        for k in known_list:
            if k.get('key') == key and (not k.get('match') or k['match'] in ctx):
                return k
        return None
    errors, violations, known_hits, inconclusive = [], [], [], []
    tot = dict(paths=0, q_unsat=0, q_sat=0, q_unknown=0, solver_s=0.0, forks=0, aborted=0, val=0, div_sites=0, assumed_feasible=0, cut_unsettled=0)
    proved, covers, files, assumes, samples = {}, {}, set(), set(), []
    soft = {}
    for r in results:
        for k in ('paths', 'q_unsat', 'q_sat', 'q_unknown', 'solver_s', 'forks', 'aborted', 'div_sites', 'assumed_feasible', 'cut_unsettled'):
            tot[k] += r.get(k, 0) or 0
        tot['val'] += r.get('translator_validation_cases', 0) or 0
        for k, v in (r.get('proved') or {}).items():
            proved[r['harness'] + ':' + k] = proved.get(r['harness'] + ':' + k, 0) + v
        for k, v in (r.get('covers') or {}).items():
            covers[r['harness'] + ':' + k] = covers.get(r['harness'] + ':' + k, 0) + v
        for k, v in (r.get('soft_unknown') or {}).items():
            soft[r['harness'] + ':' + k] = soft.get(r['harness'] + ':' + k, 0) + v
        files.update(r.get('files') or [])
        assumes.update(r.get('assumes') or [])
        for s in (r.get('samples') or [])[:2]:
            if len(samples) < 12:
                samples.append({'harness': r['harness'], 'params': r['params'], 'case': s})
        if r.get('error'):
            errors.append('%s %s: %s' % (r['harness'], r['params'], r['error']))
        if r.get('n_unknown'):
            inconclusive.append('%s %s: %d unknown solver answers (%s)' % (r['harness'], r['params'], r['n_unknown'],
                                                                         r.get('unknowns', [])[:3]))
        for v in r.get('violations', []):
            key = '%s:%s' % (r['harness'], v['label'])
            rep = v.get('float_replay')
            real = v.get('real_replay')
            reproduced = rep == 'reproduced' and (real is None or real is True or (isinstance(real, dict) and real.get('reproduced')))
            if not reproduced:
                errors.append('counterexample for %s not reproduced (float=%s real=%s) model=%s' % (
                    key, rep, real, json.dumps(v['model'], default=str)[:400]))
                continue
            v['key'] = key
            kf = _known_for(key, v)
            if kf is not None:
                known_hits.append((key + ('[' + kf['match'] + ']' if kf.get('match') else ''), kf))
            else:
                violations.append(v)

    # write replays + report
    out_lines = []
    seen_known = set()
    for key, k in known_hits:
        if key not in seen_known:
            seen_known.add(key)
            out_lines.append('KNOWN-FINDING: property=%s key=%s %s' % (prop, key, k.get('text', '')))
    seen_v = set()
    for v in violations:
        vk = (v['key'], json.dumps(v.get('params'), default=str, sort_keys=True))
        if vk in seen_v:
            continue
        seen_v.add(vk)
        d = os.path.join(VERIF, 'replays', prop)
        os.makedirs(d, exist_ok=True)
        blob = {'property': prop, 'harness': v['harness'], 'label': v['label'], 'params': v['params'],
                'model': v['model'], 'info': v.get('info'), 'float_failed': v.get('float_failed'),
                'real_replay': v.get('real_replay')}
        hsh = hashlib.sha1(json.dumps(blob, sort_keys=True, default=str).encode()).hexdigest()[:8]
        path = os.path.join('replays', prop, '%s_%s_%s.json' % (v['harness'], ''.join(c if c.isalnum() else '_' for c in v['label'])[:60], hsh))
        with open(os.path.join(VERIF, path), 'w') as f:
            json.dump(blob, f, indent=1, default=str)
        out_lines.append('VIOLATION property=%s replay=%s' % (prop, path))

    wall = time.time() - t0
    nobl = sum(proved.values())
    evidence = {
        'property_id': prop, 'tier': tier, 'seed': seed, 'level': 'other',
        'coverage': {
            'explanation': ('bounded symbolic execution of the real source (pyx2py translation regenerated from /repo, '
                            'or the unmodified .py module) on z3-backed proxy values; every feasible path within the '
                            'stated bounds is explored and each obligation is decided by the solver as pc & ~prop '
                            '(unsat = holds for all values on that path).'),
            'evaluations': tot['q_unsat'] + tot['q_sat'] + tot['q_unknown'],
            'distinct_nontrivial': tot['paths'],
            'rule': 'evaluations = SMT queries; distinct_nontrivial = distinct feasible paths (distinct decision '
                    'sequences) that ran to the end of a harness and had their obligations discharged',
            'samples': samples or [{'note': 'no samples recorded'}],
            'obligations': nobl + len(seen_v) + len(seen_known),
            'discharged': nobl,
            'queries': {'unsat': tot['q_unsat'], 'sat': tot['q_sat'], 'unknown': tot['q_unknown']},
            'solver_s': round(tot['solver_s'], 2),
            'paths': tot['paths'], 'aborted_infeasible': tot['aborted'], 'forks': tot['forks'],
            'functions_encoded': sorted({f for h in hs for f in h.functions}),
            'source_files_loaded': sorted(files),
            'bounds': {h.name: {'params': h.tiers.get(tier), **h.bounds} for h in hs},
            'proved_by_label': proved, 'cover_witnesses': covers,
            'translator_validation_cases': tot['val'],
            'division_sites_cut_at_zero': tot['div_sites'],
            'branch_sides_explored_without_feasibility_verdict': tot['assumed_feasible'],
            'paths_cut_after_exception_on_unsettled_branch': tot['cut_unsettled'],
            'stubs': sorted({s for h in hs for s in h.stubs}),
            'outside_claim': sorted({s for h in hs for s in h.outside}),
            'inconclusive_fp_obligations': soft,
            'jobs': len(jobs), 'harness_errors': errors[:10], 'inconclusive': inconclusive[:10],
            'known_findings_hit': sorted(seen_known),
        },
        'assumptions': sorted(assumes) + ['real-mode: C doubles modelled as exact reals (rounding outside the claim)',
                                        'z3 %s' % __import__('z3').get_version_string()],
        'wall_s': round(wall, 2),
        'violations': len(seen_v),
    }
    evdir = os.environ.get('SYMX_EVIDENCE_DIR') or os.path.join(VERIF, 'evidence')     # seed trials against a scratch worktree write elsewhere
    os.makedirs(evdir, exist_ok=True)
    with open(os.path.join(evdir, prop + '.json'), 'w') as f:
        json.dump(evidence, f, indent=1, default=str)

    for ln in out_lines:
        print(ln)
    print('%s tier=%s jobs=%d paths=%d queries=%d (unsat %d / sat %d / unknown %d) solver=%.1fs wall=%.1fs obligations=%d' % (
        prop, tier, len(jobs), tot['paths'], tot['q_unsat'] + tot['q_sat'] + tot['q_unknown'], tot['q_unsat'],
        tot['q_sat'], tot['q_unknown'], tot['solver_s'], wall, nobl))
    if a.v:
        for k in sorted(proved):
            print('   proved %-60s x%d' % (k, proved[k]))
        for k in sorted(covers):
            print('   cover  %-60s x%d' % (k, covers[k]))
    if seen_v:
        return EXIT_VIOLATION
    if errors or inconclusive:
        for e in errors + inconclusive:
            print('HARNESS-ERROR/INCONCLUSIVE:', e, file=sys.stderr)
        return EXIT_HARNESS
    return EXIT_OK


if __name__ == '__main__':
    sys.exit(main())

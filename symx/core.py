"""SYMX core: z3-backed proxy values, re-execution path explorer, float-mode replay context.

A harness is a function ``h(ex)``.  In symbolic mode ``ex`` is an :class:`Explorer`
(values are proxies over z3 terms, every ``bool()`` of a symbolic condition forks the
path under a solver feasibility check, ``ex.prove`` discharges ``pc & ~prop``).  In
float mode ``ex`` is a :class:`FloatCtx`: the same harness is run once on IEEE doubles
taken from a counterexample model (replay).
"""
import math
import json
import os
import time
import itertools
from fractions import Fraction

import z3
import threading as _threading


# --------------------------------------------------------------------------- solver watchdog
# z3's own 'timeout' is not honoured inside some nlsat / simplifier loops; a daemon thread interrupts the context when a check
# overruns its budget by a wide margin, so that the call returns 'unknown' (inconclusive) instead of hanging the job.
class _Watchdog:
    def __init__(self):
        self.deadline = None
        self.fired = 0
        self.started = False
        self.lock = _threading.Lock()

    def start(self):
        if self.started and getattr(self, 'pid', None) == os.getpid():
            return
        self.started, self.pid = True, os.getpid()
        t = _threading.Thread(target=self.run, daemon=True)
        t.start()

    def run(self):
        while True:
            time.sleep(0.25)
            d = self.deadline
            if d is not None and time.time() > d:
                self.fired += 1
                self.deadline = time.time() + 5.0   # re-fire until the call returns
                try:
                    z3.main_ctx().interrupt()
                except Exception:
                    pass


WATCHDOG = _Watchdog()
_orig_solver_check = z3.Solver.check
_orig_solver_set = z3.Solver.set


def _guarded_set(self, *args, **kw):
    try:
        if len(args) >= 2 and args[0] == 'timeout':
            self._sx_tmo = int(args[1])
        if 'timeout' in kw:
            self._sx_tmo = int(kw['timeout'])
    except Exception:
        pass
    return _orig_solver_set(self, *args, **kw)


def _guarded_check(self, *a):
    tmo = getattr(self, '_sx_tmo', None)
    if tmo is None or tmo <= 0 or tmo > 10 ** 8:
        tmo = int(os.environ.get('SYMX_DEFAULT_HARD_MS', '600000'))
    WATCHDOG.start()
    WATCHDOG.deadline = time.time() + 1.5 * tmo / 1000.0 + 5.0
    try:
        return _orig_solver_check(self, *a)
    except z3.Z3Exception:
        return z3.unknown
    finally:
        WATCHDOG.deadline = None


z3.Solver.check = _guarded_check
z3.Solver.set = _guarded_set

try:
    import numpy as _np
except Exception:  # pragma: no cover
    _np = None


class Abort(BaseException):
    """infeasible path / cut path (BaseException so `except Exception` in code under test does not swallow it)"""


class BoundExceeded(BaseException):
    pass


class HarnessError(Exception):
    pass


CUR = None  # current context (Explorer or FloatCtx)


def cur():
    return CUR


def is_sym(v):
    return isinstance(v, (R, I, B, S, D))


# --------------------------------------------------------------------------- lifting
_NUM = (int, float, Fraction)


def _rv(v):
    """python number -> z3 RealVal (exact)"""
    if isinstance(v, bool):
        return z3.RealVal(int(v))
    if isinstance(v, int):
        return z3.RealVal(v)
    if isinstance(v, Fraction):
        return z3.RealVal(v)
    if isinstance(v, float):
        if math.isnan(v) or math.isinf(v):
            raise HarnessError('non-finite literal %r in real mode' % v)
        return z3.RealVal(Fraction(v))
    if _np is not None:
        if isinstance(v, _np.floating):
            return z3.RealVal(Fraction(float(v)))
        if isinstance(v, _np.integer):
            return z3.RealVal(int(v))
        if isinstance(v, _np.bool_):
            return z3.RealVal(int(v))
    raise TypeError('cannot lift %r (%s) to Real' % (v, type(v).__name__))


def lift_real(v):
    if isinstance(v, R):
        return v.t
    if isinstance(v, I):
        return z3.ToReal(v.t)
    if isinstance(v, B):
        return z3.If(v.t, z3.RealVal(1), z3.RealVal(0))
    return _rv(v)


def lift_int(v):
    if isinstance(v, I):
        return v.t
    if isinstance(v, bool):
        return z3.IntVal(int(v))
    if isinstance(v, int):
        return z3.IntVal(v)
    if _np is not None and isinstance(v, _np.integer):
        return z3.IntVal(int(v))
    raise TypeError('cannot lift %r to Int' % (v,))


def lift_bool(v):
    if isinstance(v, B):
        return v.t
    if isinstance(v, (bool,)) or (_np is not None and isinstance(v, _np.bool_)):
        return z3.BoolVal(bool(v))
    if isinstance(v, z3.BoolRef):
        return v
    raise TypeError('cannot lift %r to Bool' % (v,))


def _cfrac(v):
    """exact rational value of a python number or a constant R/I proxy, else None"""
    if isinstance(v, bool):
        return Fraction(int(v))
    if isinstance(v, (int, Fraction)):
        return Fraction(v)
    if isinstance(v, float):
        return Fraction(v) if math.isfinite(v) else None
    if isinstance(v, R):
        t = v.t
        if z3.is_rational_value(t):
            return t.as_fraction()
        return None
    if isinstance(v, I):
        t = v.t
        if z3.is_int_value(t):
            return Fraction(t.as_long())
        return None
    if _np is not None and isinstance(v, (_np.floating, _np.integer)):
        return Fraction(float(v)) if isinstance(v, _np.floating) else Fraction(int(v))
    return None


def _fold2(a, b, op):
    fa = _cfrac(a)
    if fa is None:
        return None
    fb = _cfrac(b)
    if fb is None:
        return None
    return op(fa, fb)


def CR(v):
    """exact rational constant as an R proxy"""
    return R(z3.RealVal(Fraction(v)))


def _isinf(o):
    return isinstance(o, float) and math.isinf(o)


def _isintlike(v):
    return isinstance(v, (I, int)) and not isinstance(v, bool) or (_np is not None and isinstance(v, _np.integer))


def _arr(v):
    return _np is not None and isinstance(v, _np.ndarray)


def _elementwise(fn, arr):
    return _np.frompyfunc(fn, 1, 1)(arr)


# --------------------------------------------------------------------------- proxies
class B:
    __slots__ = ('t',)

    def __init__(self, t):
        self.t = t

    def __bool__(self):
        t = self.t
        if z3.is_true(t):
            return True
        if z3.is_false(t):
            return False
        return CUR.branch(t)

    def __and__(self, o):
        return B(z3.And(self.t, lift_bool(o)))
    __rand__ = __and__

    def __or__(self, o):
        return B(z3.Or(self.t, lift_bool(o)))
    __ror__ = __or__

    def __invert__(self):
        return B(z3.Not(self.t))

    def __eq__(self, o):
        return B(self.t == lift_bool(o))

    def __ne__(self, o):
        return B(self.t != lift_bool(o))
    __hash__ = None

    def __repr__(self):
        return 'B(%s)' % self.t


class R:
    """symbolic real (C double in real mode)"""
    __slots__ = ('t',)

    def __init__(self, t):
        self.t = t

    # arithmetic
    def __add__(self, o):
        _f = _fold2(self, o, lambda x, y: x + y) if z3.is_rational_value(self.t) else None
        if _f is not None:
            return R(z3.RealVal(_f))
        if _arr(o):
            return _elementwise(lambda e: self + e, o)
        if isinstance(o, _NUM) and o == 0:
            return self
        try:
            return R(self.t + lift_real(o))
        except TypeError:
            return NotImplemented

    def __radd__(self, o):
        _f = _fold2(o, self, lambda x, y: x + y) if z3.is_rational_value(self.t) else None
        if _f is not None:
            return R(z3.RealVal(_f))
        if _arr(o):
            return _elementwise(lambda e: e + self, o)
        if isinstance(o, _NUM) and o == 0:
            return self
        return R(lift_real(o) + self.t)

    def __sub__(self, o):
        _f = _fold2(self, o, lambda x, y: x - y) if z3.is_rational_value(self.t) else None
        if _f is not None:
            return R(z3.RealVal(_f))
        if _arr(o):
            return _elementwise(lambda e: self - e, o)
        if isinstance(o, _NUM) and o == 0:
            return self
        try:
            return R(self.t - lift_real(o))
        except TypeError:
            return NotImplemented

    def __rsub__(self, o):
        _f = _fold2(o, self, lambda x, y: x - y) if z3.is_rational_value(self.t) else None
        if _f is not None:
            return R(z3.RealVal(_f))
        if _arr(o):
            return _elementwise(lambda e: e - self, o)
        return R(lift_real(o) - self.t)

    def __mul__(self, o):
        _f = _fold2(self, o, lambda x, y: x * y) if z3.is_rational_value(self.t) else None
        if _f is not None:
            return R(z3.RealVal(_f))
        if _arr(o):
            return _elementwise(lambda e: self * e, o)
        if isinstance(o, _NUM) and not isinstance(o, bool):
            if o == 0:
                return 0.0
            if o == 1:
                return self
        try:
            return R(self.t * lift_real(o))
        except TypeError:
            return NotImplemented

    def __rmul__(self, o):
        _f = _fold2(o, self, lambda x, y: x * y) if z3.is_rational_value(self.t) else None
        if _f is not None:
            return R(z3.RealVal(_f))
        if _arr(o):
            return _elementwise(lambda e: e * self, o)
        if isinstance(o, _NUM) and not isinstance(o, bool):
            if o == 0:
                return 0.0
            if o == 1:
                return self
        return R(lift_real(o) * self.t)

    def __truediv__(self, o):
        _f = _fold2(self, o, lambda x, y: x / y if y != 0 else None) if z3.is_rational_value(self.t) else None
        if _f is not None:
            return R(z3.RealVal(_f))
        if _arr(o):
            return _elementwise(lambda e: self / e, o)
        try:
            d = lift_real(o)
        except TypeError:
            return NotImplemented
        _guard_div(d)
        return R(self.t / d)

    def __rtruediv__(self, o):
        _f = _fold2(o, self, lambda x, y: x / y if y != 0 else None) if z3.is_rational_value(self.t) else None
        if _f is not None:
            return R(z3.RealVal(_f))
        if _arr(o):
            return _elementwise(lambda e: e / self, o)
        _guard_div(self.t)
        return R(lift_real(o) / self.t)

    def __floordiv__(self, o):
        q = self / o
        return R(z3.ToReal(z3.ToInt(q.t)))

    def __neg__(self):
        if z3.is_rational_value(self.t):
            return R(z3.RealVal(-self.t.as_fraction()))
        return R(-self.t)

    def __pos__(self):
        return self

    def __abs__(self):
        return R(z3.If(self.t >= 0, self.t, -self.t))

    def __pow__(self, o):
        return sym_pow(self, o)

    def __rpow__(self, o):
        return sym_pow(o, self)

    # comparisons
    def __eq__(self, o):
        if o is None:
            return False
        _f = _fold2(self, o, lambda x, y: x == y) if z3.is_rational_value(self.t) else None
        if _f is not None:
            return _f
        return B(self.t == lift_real(o))

    def __ne__(self, o):
        if o is None:
            return True
        _f = _fold2(self, o, lambda x, y: x != y) if z3.is_rational_value(self.t) else None
        if _f is not None:
            return _f
        return B(self.t != lift_real(o))

    def __lt__(self, o):
        _f = _fold2(self, o, lambda x, y: x < y) if z3.is_rational_value(self.t) else None
        if _f is not None:
            return _f
        if _isinf(o):
            return o > 0
        return B(self.t < lift_real(o))

    def __le__(self, o):
        _f = _fold2(self, o, lambda x, y: x <= y) if z3.is_rational_value(self.t) else None
        if _f is not None:
            return _f
        if _isinf(o):
            return o > 0
        return B(self.t <= lift_real(o))

    def __gt__(self, o):
        _f = _fold2(self, o, lambda x, y: x > y) if z3.is_rational_value(self.t) else None
        if _f is not None:
            return _f
        if _isinf(o):
            return o < 0
        return B(self.t > lift_real(o))

    def __ge__(self, o):
        _f = _fold2(self, o, lambda x, y: x >= y) if z3.is_rational_value(self.t) else None
        if _f is not None:
            return _f
        if _isinf(o):
            return o < 0
        return B(self.t >= lift_real(o))
    __hash__ = None

    def __bool__(self):
        return bool(B(self.t != 0))

    def __float__(self):
        raise HarnessError('float() of a symbolic real: value escapes to C level (%s)' % self.t)

    def __int__(self):
        return int(trunc_to_int(self))

    def __floor__(self):
        return I(z3.ToInt(self.t))

    def __ceil__(self):
        return I(-z3.ToInt(-self.t))

    def __trunc__(self):
        return trunc_to_int(self)

    def __round__(self, n=None):
        return I(z3.ToInt(self.t + z3.RealVal(Fraction(1, 2))))

    # numpy object-array ufunc hooks
    def sqrt(self):
        return MATH.sqrt(self)

    def exp(self):
        return MATH.exp(self)

    def log(self):
        return MATH.log(self)

    def log10(self):
        return MATH.log10(self)

    def sin(self):
        return MATH.sin(self)

    def cos(self):
        return MATH.cos(self)

    def tan(self):
        return MATH.tan(self)

    def conjugate(self):
        return self

    def item(self):
        return self

    def __repr__(self):
        return 'R(%s)' % self.t


class I:
    """symbolic mathematical integer"""
    __slots__ = ('t',)

    def __init__(self, t):
        self.t = t

    def _bin(self, o, f, rf):
        if _arr(o):
            return NotImplemented
        if _isintlike(o):
            return I(f(self.t, lift_int(o)))
        return R(rf(z3.ToReal(self.t), lift_real(o)))

    def __add__(self, o):
        if _arr(o):
            return _elementwise(lambda e: self + e, o)
        return self._bin(o, lambda a, b: a + b, lambda a, b: a + b)

    def __radd__(self, o):
        if _arr(o):
            return _elementwise(lambda e: e + self, o)
        return self._bin(o, lambda a, b: b + a, lambda a, b: b + a)

    def __sub__(self, o):
        if _arr(o):
            return _elementwise(lambda e: self - e, o)
        return self._bin(o, lambda a, b: a - b, lambda a, b: a - b)

    def __rsub__(self, o):
        if _arr(o):
            return _elementwise(lambda e: e - self, o)
        return self._bin(o, lambda a, b: b - a, lambda a, b: b - a)

    def __mul__(self, o):
        if _arr(o):
            return _elementwise(lambda e: self * e, o)
        return self._bin(o, lambda a, b: a * b, lambda a, b: a * b)

    def __rmul__(self, o):
        if _arr(o):
            return _elementwise(lambda e: e * self, o)
        return self._bin(o, lambda a, b: b * a, lambda a, b: b * a)

    def __truediv__(self, o):
        return R(z3.ToReal(self.t)) / o

    def __rtruediv__(self, o):
        return o / R(z3.ToReal(self.t))

    def __floordiv__(self, o):
        if isinstance(o, int) and o > 0:
            return I(self.t / z3.IntVal(o))  # z3 int div is floor for positive divisor
        if isinstance(o, I):
            CUR.assume(o.t > 0, 'floordiv: positive divisor')
            return I(self.t / o.t)
        return R(z3.ToReal(self.t)) // o

    def __mod__(self, o):
        if isinstance(o, int) and o > 0:
            return I(self.t % z3.IntVal(o))
        if isinstance(o, I):
            CUR.assume(o.t > 0, 'mod: positive divisor')
            return I(self.t % o.t)
        raise HarnessError('I %% %r unsupported' % (o,))

    def __neg__(self):
        return I(-self.t)

    def __pos__(self):
        return self

    def __abs__(self):
        return I(z3.If(self.t >= 0, self.t, -self.t))

    def __pow__(self, o):
        return sym_pow(self, o)

    def _cmp(self, o, f):
        if _isintlike(o):
            return B(f(self.t, lift_int(o)))
        return B(f(z3.ToReal(self.t), lift_real(o)))

    def __eq__(self, o):
        if o is None:
            return False
        return self._cmp(o, lambda a, b: a == b)

    def __ne__(self, o):
        if o is None:
            return True
        return self._cmp(o, lambda a, b: a != b)

    def __lt__(self, o):
        return self._cmp(o, lambda a, b: a < b)

    def __le__(self, o):
        return self._cmp(o, lambda a, b: a <= b)

    def __gt__(self, o):
        return self._cmp(o, lambda a, b: a > b)

    def __ge__(self, o):
        return self._cmp(o, lambda a, b: a >= b)
    __hash__ = None

    def __bool__(self):
        return bool(B(self.t != 0))

    def __index__(self):
        try:
            return CUR.concretize(self.t)
        except Abort:
            CUR._abort_flag = True      # C-level callers (numpy indexing) turn the Abort into IndexError/TypeError
            raise

    def __int__(self):
        try:
            return CUR.concretize(self.t)
        except Abort:
            CUR._abort_flag = True
            raise

    def __float__(self):
        raise HarnessError('float() of a symbolic int')

    def __floor__(self):
        return self

    def __ceil__(self):
        return self

    def __trunc__(self):
        return self

    def sqrt(self):
        return MATH.sqrt(R(z3.ToReal(self.t)))

    def item(self):
        return self

    def __repr__(self):
        return 'I(%s)' % self.t


class S:
    """symbolic string (z3 String term)"""
    __slots__ = ('t', 'lower_known')

    def __init__(self, t, lower_known=None):
        self.t = t
        self.lower_known = lower_known

    def __eq__(self, o):
        if isinstance(o, S):
            return B(self.t == o.t)
        if isinstance(o, str):
            return B(self.t == z3.StringVal(o))
        return False

    def __ne__(self, o):
        r = self.__eq__(o)
        return ~r if isinstance(r, B) else (not r)

    def __hash__(self):
        # used as a dict key: fork over "equals this concrete key" is done by __eq__; all symbolic strings share a bucket
        return 0

    def lower(self):
        if self.lower_known is None:
            raise HarnessError('lower() of an unconstrained symbolic string')
        return self.lower_known

    def __str__(self):
        raise HarnessError('str() of symbolic string escapes to C level')

    def __repr__(self):
        return 'S(%s)' % self.t


# --------------------------------------------------------------------------- IEEE-754 double mode
F64 = z3.Float64()
RNE = z3.RNE()


def lift_fp(v):
    if isinstance(v, D):
        return v.t
    if isinstance(v, bool):
        return z3.FPVal(float(v), F64)
    if isinstance(v, (int, float)):
        return z3.FPVal(float(v), F64)
    if _np is not None and isinstance(v, (_np.floating, _np.integer)):
        return z3.FPVal(float(v), F64)
    raise TypeError('cannot lift %r to Float64' % (v,))


class D:
    """symbolic IEEE-754 binary64 value (round-to-nearest-even arithmetic)"""
    __slots__ = ('t',)

    def __init__(self, t):
        self.t = t

    def __add__(self, o):
        return D(z3.fpAdd(RNE, self.t, lift_fp(o)))

    def __radd__(self, o):
        return D(z3.fpAdd(RNE, lift_fp(o), self.t))

    def __sub__(self, o):
        return D(z3.fpSub(RNE, self.t, lift_fp(o)))

    def __rsub__(self, o):
        return D(z3.fpSub(RNE, lift_fp(o), self.t))

    def __mul__(self, o):
        return D(z3.fpMul(RNE, self.t, lift_fp(o)))

    def __rmul__(self, o):
        return D(z3.fpMul(RNE, lift_fp(o), self.t))

    def __truediv__(self, o):
        return D(z3.fpDiv(RNE, self.t, lift_fp(o)))

    def __rtruediv__(self, o):
        return D(z3.fpDiv(RNE, lift_fp(o), self.t))

    def __neg__(self):
        return D(z3.fpNeg(self.t))

    def __abs__(self):
        return D(z3.fpAbs(self.t))

    def __eq__(self, o):
        if o is None:
            return False
        return B(z3.fpEQ(self.t, lift_fp(o)))

    def __ne__(self, o):
        if o is None:
            return True
        return B(z3.Not(z3.fpEQ(self.t, lift_fp(o))))

    def __lt__(self, o):
        return B(z3.fpLT(self.t, lift_fp(o)))

    def __le__(self, o):
        return B(z3.fpLEQ(self.t, lift_fp(o)))

    def __gt__(self, o):
        return B(z3.fpGT(self.t, lift_fp(o)))

    def __ge__(self, o):
        return B(z3.fpGEQ(self.t, lift_fp(o)))
    __hash__ = None

    def __bool__(self):
        return bool(B(z3.Not(z3.fpIsZero(self.t))))

    def __float__(self):
        raise HarnessError('float() of a symbolic double')

    def __repr__(self):
        return 'D(%s)' % self.t


def trunc_to_int(x):
    """C (int) cast: truncation toward zero"""
    if isinstance(x, I):
        return x
    if isinstance(x, R):
        t = x.t
        if z3.is_rational_value(t):
            return int(t.as_fraction())     # truncation toward zero
        return I(z3.If(t >= 0, z3.ToInt(t), -z3.ToInt(-t)))
    if isinstance(x, B):
        return I(z3.If(x.t, z3.IntVal(1), z3.IntVal(0)))
    return int(x)


def _guard_div(d):
    """division by a symbolic term: cut the path d == 0 (recorded)"""
    if z3.is_rational_value(d) or z3.is_int_value(d):
        if d.as_fraction() == 0 if z3.is_rational_value(d) else d.as_long() == 0:
            if CUR is not None and getattr(CUR, 'div_policy', 'cut') == 'total':
                return      # cdivision(True): no exception; z3's total division leaves the value unspecified
            raise ZeroDivisionError('symbolic run: division by literal zero')
        return
    c = CUR
    if c is not None and c.sym and getattr(c, 'div_policy', 'cut') == 'cut':
        c.assume_div(d)
    elif c is not None and c.sym:
        c.div_terms.append(d)      # 'total' policy: remembered so that counterexample models can avoid zero denominators (replayable in doubles)


def sym_pow(a, b):
    if isinstance(b, int) and not isinstance(b, bool):
        if b >= 0:
            if b == 0:
                return 1
            r = a
            for _ in range(b - 1):
                r = r * a
            return r
        return 1 / sym_pow(a, -b)
    if isinstance(b, float) and b == int(b) and abs(b) <= 8:
        return sym_pow(a, int(b))
    if isinstance(b, float) and b == 0.5:
        return MATH.sqrt(a)
    if isinstance(b, float) and b == -0.5:
        return 1 / MATH.sqrt(a)
    if isinstance(b, float) and b == 1.5:
        return a * MATH.sqrt(a)
    if isinstance(b, float) and b == 2.5:
        return a * a * MATH.sqrt(a)
    if isinstance(a, (int, float)) and a == 10:
        return MATH.pow10(b)
    return MATH.pow(a, b)


# --------------------------------------------------------------------------- explorer
class Stats:
    def __init__(self):
        self.paths = 0
        self.aborted = 0
        self.forks = 0
        self.q_unsat = 0
        self.q_sat = 0
        self.q_unknown = 0
        self.solver_s = 0.0
        self.proved = {}      # label -> count of unsat obligations
        self.covers = {}      # label -> count of paths
        self.cex = []         # list of dict
        self.unknowns = []    # labels
        self.div_sites = 0
        self.assumes = []
        self.samples = []
        self.label_s = {}
        self.assumed_feasible = 0
        self.cut_unsettled = 0
        self.soft_unknown = {}


class Explorer:
    sym = True
    mode = 'sym'

    def __init__(self, timeout_ms=20000, max_paths=20000, max_concretize=64, seed=0):
        self.timeout_ms = timeout_ms
        self.branch_ms = int(os.environ.get('SYMX_BRANCH_MS', '1000'))
        self.max_paths = max_paths
        self.max_concretize = max_concretize
        self.stats = Stats()
        self.solver = z3.Solver()
        self.solver.set('timeout', timeout_ms)
        self.seed = seed
        self._n = 0
        self._assume_notes = set()
        self.lits = {}
        self.last_model = None

    # ---- running
    def explore(self, fn):
        global CUR
        stack = [[]]
        results = []
        while stack:
            prefix = stack.pop()
            self.decisions = list(prefix)
            self.pos = 0
            self.pc = []
            self.new_alts = []
            self.names = {}
            self.uf_log = {}
            self.div_terms = []
            self.fixed = {}        # int / bool inputs whose value was fixed by a fork on this path (used when no solver model is available)
            self._fresh = 0
            self.memo = {}
            self.path_cex = []
            self.lits = {}
            self.last_model = None
            self.solver.push()
            prev = CUR
            CUR = self
            MATH.reset()
            self.path_assumed = 0
            self._abort_flag = False
            try:
                r = fn(self)
                results.append(r)
                self.stats.paths += 1
            except Abort:
                self.stats.aborted += 1
            except (HarnessError, BoundExceeded):
                raise
            except Exception:
                # an exception escaping the harness on a path that contains a branch side whose feasibility the solver
                # could not settle within its budget: the path is cut and counted, not judged
                if self._abort_flag:
                    self.stats.aborted += 1     # an Abort raised inside a C-level conversion, re-raised as another type
                elif self.path_assumed > 0:
                    self.stats.cut_unsettled += 1
                else:
                    raise
            finally:
                CUR = prev
                self.solver.pop()
            stack.extend(self.new_alts)
            if self.stats.paths + self.stats.aborted > self.max_paths:
                raise BoundExceeded('more than %d paths' % self.max_paths)
        return results

    # ---- solver plumbing
    def _check(self, *extra):
        t0 = time.time()
        r = self.solver.check(*extra)
        self.stats.solver_s += time.time() - t0
        s = str(r)
        if s == 'unsat':
            self.stats.q_unsat += 1
        elif s == 'sat':
            self.stats.q_sat += 1
        else:
            self.stats.q_unknown += 1
        return s

    def _vars_of(self, t, _cache={}):
        k = t.get_id()
        if k in _cache and _cache[k][0].eq(t):
            return _cache[k][1]
        out, seen, todo = set(), set(), [t]
        while todo:
            u = todo.pop()
            i = u.get_id()
            if i in seen:
                continue
            seen.add(i)
            if z3.is_const(u) and u.decl().kind() == z3.Z3_OP_UNINTERPRETED:
                out.add(u.decl().name())
            elif z3.is_app(u):
                if u.decl().kind() == z3.Z3_OP_UNINTERPRETED:
                    out.add('uf:' + u.decl().name())
                todo.extend(u.children())
        _cache[k] = (t, out)
        return out

    def _sliced_check(self, term, cons, timeout_ms=None, only_if_smaller=False):
        want = set(self._vars_of(term))
        for c in cons:
            want |= self._vars_of(c)
        items = [(c, self._vars_of(c)) for c in self.pc]
        chosen = [False] * len(items)
        changed = True
        while changed:
            changed = False
            for i, (c, vs) in enumerate(items):
                if not chosen[i] and vs & want:
                    chosen[i] = True
                    if not vs <= want:
                        want |= vs
                    changed = True
        if only_if_smaller and sum(chosen) * 4 > len(items) * 3:
            return 'unknown', None      # no real reduction: leave it to the incremental solver
        s2 = z3.Solver()
        s2.set('timeout', timeout_ms or self.timeout_ms)
        s2.add(*[c for (c, _), ch in zip(items, chosen) if ch])
        s2.add(*cons)
        t0 = time.time()
        r = str(s2.check())
        self.stats.solver_s += time.time() - t0
        if r == 'sat':
            self.stats.q_sat += 1
            return r, s2.model()
        if r == 'unsat':
            self.stats.q_unsat += 1
        return r, None

    def _pinned_model_search(self, neg, rounds=None):
        import random as _rnd
        rounds = int(os.environ.get('SYMX_PIN_ROUNDS', '48')) if rounds is None else rounds
        reals = [v for v in self.names.values() if z3.is_real(v) and z3.is_const(v)]
        if not reals:
            return 'unknown', None
        rnd = _rnd.Random(1234 + len(self.pc))
        pool = [0, 1, 2, 3, -1, Fraction(1, 2), Fraction(3, 2), 5, -2, Fraction(1, 4), 7, Fraction(5, 2), 4, -3]
        t_end = time.time() + float(os.environ.get('SYMX_PIN_BUDGET_S', '60'))
        for k in range(rounds):
            if time.time() > t_end:
                break
            keep = 0.0 if k < 6 else (0.15 if k < 24 else 0.35)
            s2 = z3.Solver()
            s2.set('timeout', 2500)
            s2.add(*self.pc)
            s2.add(neg)
            for v in reals:
                if rnd.random() >= keep:
                    q = rnd.choice(pool[:6] if k < 3 else pool)
                    s2.add(v == z3.RealVal(str(q)))
            t0 = time.time()
            r = str(s2.check())
            self.stats.solver_s += time.time() - t0
            if r == 'sat':
                return 'sat', s2
        return 'unknown', None

    def _decided(self, t):
        """truth value of a boolean term if it follows propositionally from literals decided on this path, else None"""
        k = t.get_id()
        if k in self.lits:
            return self.lits[k]
        if z3.is_true(t):
            return True
        if z3.is_false(t):
            return False
        if z3.is_not(t):
            v = self._decided(t.arg(0))
            return None if v is None else (not v)
        if z3.is_and(t):
            vals = [self._decided(c) for c in t.children()]
            if any(v is False for v in vals):
                return False
            if all(v is True for v in vals):
                return True
            return None
        if z3.is_or(t):
            vals = [self._decided(c) for c in t.children()]
            if any(v is True for v in vals):
                return True
            if all(v is False for v in vals):
                return False
            return None
        return None

    def _decide(self, neg):
        """portfolio for an obligation: incremental solver (short), nlsat tactic on the whole goal, incremental (full)"""
        fast = min(int(os.environ.get("SYMX_FAST_MS", "300")), self.timeout_ms)
        if getattr(self, 'fp_mode', False):
            # floating point: a fresh QF_FP solver on the whole goal is far better than the incremental one
            try:
                s2 = z3.SolverFor('QF_FP')
                s2.set('timeout', self.timeout_ms)
                s2.add(*self.pc)
                s2.add(neg)
                t0 = time.time()
                r2 = str(s2.check())
                self.stats.solver_s += time.time() - t0
            except z3.Z3Exception:
                r2 = 'unknown'
            if r2 == 'unsat':
                self.stats.q_unsat += 1
            elif r2 == 'sat':
                self.stats.q_sat += 1
            else:
                self.stats.q_unknown += 1
            return r2, s2
        self.solver.set('timeout', fast)
        try:
            r = self._check(neg)
        finally:
            self.solver.set('timeout', self.timeout_ms)
        if r != 'unknown':
            return r, self.solver
        self.stats.q_unknown -= 1
        try:
            s2 = z3.SolverFor('QF_FP' if getattr(self, 'fp_mode', False) else 'QF_NRA')
            s2.set('timeout', self.timeout_ms)
            s2.add(*self.pc)
            s2.add(neg)
            t0 = time.time()
            r2 = str(s2.check())
            self.stats.solver_s += time.time() - t0
        except z3.Z3Exception:
            r2 = 'unknown'
        if r2 == 'unsat':
            self.stats.q_unsat += 1
            return r2, s2
        if r2 == 'sat':
            self.stats.q_sat += 1
            return r2, s2
        r = self._check(neg)
        if r == 'unknown' and getattr(self, 'str_mode', False):
            r3, m3 = cvc5_check(list(self.pc) + [neg], self.names, self.timeout_ms)
            if r3 in ('sat', 'unsat'):
                self.stats.q_unknown -= 1
                if r3 == 'unsat':
                    self.stats.q_unsat += 1
                else:
                    self.stats.q_sat += 1
                self.stats.cvc5_answers = getattr(self.stats, 'cvc5_answers', 0) + 1
                return r3, m3
        return r, self.solver

    def _add(self, c):
        self.pc.append(c)
        self.solver.add(c)
        if self.last_model is not None and self._model_says(c) is not True:
            self.last_model = None

    def assume(self, c, note=None):
        if isinstance(c, B):
            c = c.t
        elif isinstance(c, bool):
            if not c:
                raise Abort()
            return
        if note and note not in self._assume_notes:
            self._assume_notes.add(note)
            self.stats.assumes.append(note)
        self._add(c)

    def assume_div(self, d):
        self.stats.div_sites += 1
        self._add(d != 0)

    def feasible(self):
        return self._check() != 'unsat'

    def _model_says(self, cond):
        """does the cached model of the path condition satisfy cond?  (None when there is no usable model)"""
        m = self.last_model
        if m is None:
            return None
        try:
            v = m.eval(cond, model_completion=True)
        except z3.Z3Exception:
            return None
        if z3.is_true(v):
            return True
        if z3.is_false(v):
            return False
        return None

    def _feasible_with(self, cond):
        self.solver.set('timeout', self.branch_ms)
        try:
            r = self._check(cond)
        finally:
            self.solver.set('timeout', self.timeout_ms)
        if r == 'unknown' and not getattr(self, 'fp_mode', False) and not getattr(self, 'str_mode', False):
            # independence slicing (see concretize): only the constraints connected to the condition through shared variables matter
            r2, _m = self._sliced_check(cond, [cond], timeout_ms=min(self.branch_ms, 400), only_if_smaller=True)
            if r2 in ('sat', 'unsat'):
                self.stats.q_unknown -= 1
                self.stats.sliced = getattr(self.stats, 'sliced', 0) + 1
                return r2
        if r == 'unknown':
            # undecided within the branch budget: explore the side anyway (a superset of the feasible paths is sound:
            # obligations on an infeasible path are vacuous, and a counterexample always comes with a model)
            self.stats.q_unknown -= 1
            self.stats.assumed_feasible += 1
            self.path_assumed = getattr(self, 'path_assumed', 0) + 1
        if r == 'sat':
            try:
                self.last_model = self.solver.model()
            except z3.Z3Exception:
                self.last_model = None
        return r

    def branch(self, cond):
        k = cond.get_id()
        if k in self.lits:
            return self.lits[k]
        if self.pos < len(self.decisions):
            d = self.decisions[self.pos]
            self.pos += 1
            if d[0] != 'b':
                raise HarnessError('non-deterministic replay of decisions')
            self._add(cond if d[1] else z3.Not(cond))
            self.lits[k] = d[1]
            self._note_fixed(cond, d[1])
            return d[1]
        ms = self._model_says(cond)
        if ms is True:
            rt, rf = 'sat', self._feasible_with(z3.Not(cond))
        elif ms is False:
            rt, rf = self._feasible_with(cond), 'sat'
        else:
            rt = self._feasible_with(cond)
            rf = self._feasible_with(z3.Not(cond)) if rt != 'unsat' else 'sat'
        t = rt != 'unsat'
        f = rf != 'unsat'
        if t and f:
            self.stats.forks += 1
            self.new_alts.append(self.decisions[:self.pos] + [('b', False)])
            d = True
        elif t:
            d = True
        elif f:
            d = False
        else:
            raise Abort()
        self.decisions.append(('b', d))
        self.pos += 1
        self._add(cond if d else z3.Not(cond))
        self.lits[k] = d
        self._note_fixed(cond, d)
        return d

    def _note_fixed(self, term, value):
        try:
            if z3.is_const(term) and term.decl().kind() == z3.Z3_OP_UNINTERPRETED:
                self.fixed[term.decl().name()] = value
        except Exception:
            pass

    def concretize(self, term):
        """fork over the feasible integer values of `term`"""
        if z3.is_int_value(term):
            return term.as_long()
        st = z3.simplify(term)
        if z3.is_int_value(st):
            return st.as_long()
        if self.pos < len(self.decisions):
            d = self.decisions[self.pos]
            if d[0] == 'c':
                self.pos += 1
                self._add(term == d[1])
                self._note_fixed(term, d[1])
                return d[1]
            if d[0] != 'cx':
                raise HarnessError('non-deterministic replay of decisions')
            excl = d[1]
            # fallthrough: last entry, pick a new value
            self.decisions.pop()
        else:
            excl = []
        if len(excl) >= self.max_concretize:
            raise BoundExceeded('concretisation of %s needs more than %d values' % (term, self.max_concretize))
        cons = [term != v for v in excl]
        # the value of `term` usually depends on a small part of the path condition only: decide on the connected component of
        # constraints sharing variables with it (exact whenever the remaining, variable-disjoint part is satisfiable - the path was
        # judged feasible when its last branch was taken; if that part is unsatisfiable after all, the path is vacuous and any
        # obligation on it holds trivially, counter-examples are replayed anyway)
        r, m = self._sliced_check(term, cons)
        if r == 'unsat':
            raise Abort()
        if r == 'sat':
            self.stats.sliced = getattr(self.stats, 'sliced', 0) + 1
        else:
            r = self._check(*cons)
            m = None
            if r == 'unsat':
                raise Abort()
        if r == 'unknown':
            self.stats.unknowns.append('concretize')
            raise Abort()
        if m is None:
            m = self.solver.model()
        v = m.eval(term, model_completion=True).as_long()
        self.stats.forks += 1
        self.new_alts.append(self.decisions[:self.pos] + [('cx', excl + [v])])
        self.decisions.append(('c', v))
        self.pos += 1
        self._add(term == v)
        self._note_fixed(term, v)
        return v

    def choice(self, name, options):
        """symbolic choice among a concrete list (forks)"""
        i = self.int('choice_' + name, 0, len(options) - 1)
        return options[int(i)]

    # ---- inputs
    def _nm(self, name):
        if name in self.names:
            raise HarnessError('duplicate symbol %s' % name)
        return name

    def real(self, name, lo=None, hi=None, pos=False, nonneg=False):
        v = z3.Real(self._nm(name))
        self.names[name] = v
        if lo is not None:
            self._add(v >= _rv(lo))
        if hi is not None:
            self._add(v <= _rv(hi))
        if pos:
            self._add(v > 0)
        if nonneg:
            self._add(v >= 0)
        return R(v)

    def int(self, name, lo=None, hi=None):
        v = z3.Int(self._nm(name))
        self.names[name] = v
        if lo is not None:
            self._add(v >= lo)
        if hi is not None:
            self._add(v <= hi)
        return I(v)

    def bool(self, name):
        v = z3.Bool(self._nm(name))
        self.names[name] = v
        return B(v)

    def string(self, name):
        v = z3.String(self._nm(name))
        self.names[name] = v
        return S(v)

    def double(self, name, finite=True):
        """IEEE double input (finite unless stated)"""
        v = z3.FP(self._nm(name), F64)
        self.names[name] = v
        self.fp_mode = True
        if finite:
            self._add(z3.And(z3.Not(z3.fpIsNaN(v)), z3.Not(z3.fpIsInf(v))))
        return D(v)

    def fresh_real(self, hint='t'):
        self._fresh += 1
        return self.real('%s!%d' % (hint, self._fresh))

    def array(self, name, shape, **kw):
        a = _np.empty(shape, dtype=object)
        for idx in itertools.product(*[range(s) for s in (shape if isinstance(shape, tuple) else (shape,))]):
            a[idx] = self.real('%s_%s' % (name, '_'.join(map(str, idx))), **kw)
        return a

    def uf(self, name, *args, nonneg=False, pos=False):
        """uninterpreted real function of real args (environment stub)"""
        ts = [lift_real(a) for a in args]
        key = (name, len(ts))
        f = self.memo.get(key)
        if f is None:
            f = z3.Function(name, *([z3.RealSort()] * len(ts) + [z3.RealSort()]))
            self.memo[key] = f
        app = f(*ts) if ts else f()
        self.uf_log.setdefault(name, []).append(ts)
        if nonneg:
            self._add(app >= 0)
        if pos:
            self._add(app > 0)
        return R(app)

    # ---- property helpers (mode independent API)
    def eq(self, a, b, rtol=None):
        return B(lift_real(a) == lift_real(b))

    def le(self, a, b, atol=None):
        return B(lift_real(a) <= lift_real(b))

    def lt(self, a, b):
        return B(lift_real(a) < lift_real(b))

    def all(self, conds):
        cs = [lift_bool(c) for c in conds]
        return B(z3.And(*cs)) if cs else B(z3.BoolVal(True))

    def any(self, conds):
        cs = [lift_bool(c) for c in conds]
        return B(z3.Or(*cs)) if cs else B(z3.BoolVal(False))

    def implies(self, a, b):
        return B(z3.Implies(lift_bool(a), lift_bool(b)))

    def not_(self, a):
        return B(z3.Not(lift_bool(a)))

    def ite(self, c, a, b):
        if isinstance(c, bool):
            return a if c else b
        return R(z3.If(lift_bool(c), lift_real(a), lift_real(b)))

    def cover(self, label):
        self.stats.covers[label] = self.stats.covers.get(label, 0) + 1

    def sample(self, obj):
        if len(self.stats.samples) < 6:
            self.stats.samples.append(obj)

    def lemma(self, cond, label, using=None):
        """cut rule: prove `cond` under the path condition, then add it as a fact for later obligations"""
        ok = self.prove(cond, 'lemma:' + label, using=using)
        if ok and not isinstance(cond, bool):
            self._add(lift_bool(cond))
        return ok

    def prove(self, cond, label, info=None, using=None, soft=False, abstract=None, sat_first=False):
        """obligation: under the current path condition `cond` holds for all values.
        sat_first: the caller expects a counterexample to be likely (e.g. two structurally different terms that should be equal): look for
        a model with pinned inputs before spending the proof budget.
        using=[facts]: modular step - first try to derive cond from these facts alone (each must already be part of the
        path condition or a proved lemma; weakening the hypotheses is sound for an unsat answer)"""
        if abstract is not None and not isinstance(cond, bool):
            # generalisation step: the listed sub-terms are replaced by fresh variables; if the obligation holds for all values
            # of those variables (given `using`), it holds in particular for the terms themselves
            subs = []
            for k_, a_ in enumerate(abstract):
                if isinstance(a_, (R, I)):
                    subs.append((a_.t, z3.Real('abs!%d' % k_) if isinstance(a_, R) else z3.Int('abs!%d' % k_)))
            goal = z3.substitute(lift_bool(cond), *subs) if subs else lift_bool(cond)
            hyps = [z3.substitute(lift_bool(u), *subs) for u in (using or []) if not isinstance(u, bool)] if subs else [lift_bool(u) for u in (using or []) if not isinstance(u, bool)]
            t0 = time.time()
            r = 'unknown'
            for mk, tmo in ((z3.Solver, 1000), (lambda: z3.SolverFor('QF_NRA'), self.timeout_ms)):
                try:
                    s2 = mk()
                    s2.set('timeout', tmo)
                    s2.add(*hyps)
                    s2.add(z3.Not(goal))
                    r = str(s2.check())
                except z3.Z3Exception:
                    r = 'unknown'
                if r == 'unsat':
                    break
            dt = time.time() - t0
            self.stats.solver_s += dt
            self.stats.label_s[label] = self.stats.label_s.get(label, 0.0) + dt
            if r == 'unsat':
                self.stats.q_unsat += 1
                self.stats.proved[label] = self.stats.proved.get(label, 0) + 1
                return True
            using = None
        if using is not None and not isinstance(cond, bool):
            t0 = time.time()
            r = 'unknown'
            for mk, tmo in ((z3.Solver, 1000), (lambda: z3.SolverFor('QF_NRA'), self.timeout_ms)):
                try:
                    s2 = mk()
                    s2.set('timeout', tmo)
                    for u in using:
                        if not isinstance(u, bool):
                            s2.add(lift_bool(u))
                    s2.add(z3.Not(lift_bool(cond)))
                    r = str(s2.check())
                except z3.Z3Exception:
                    r = 'unknown'
                if r == 'unsat':
                    break
            dt = time.time() - t0
            self.stats.solver_s += dt
            self.stats.label_s[label] = self.stats.label_s.get(label, 0.0) + dt
            if r == 'unsat':
                self.stats.q_unsat += 1
                self.stats.proved[label] = self.stats.proved.get(label, 0) + 1
                return True
        if not isinstance(cond, bool):
            dec = self._decided(lift_bool(cond))
            if dec is not None:
                cond = dec      # settled by literals the path has already decided (no arithmetic reasoning needed)
        if isinstance(cond, bool):
            if cond:
                self.stats.proved[label] = self.stats.proved.get(label, 0) + 1
                return True
            # concretely false on a feasible path: violation with any model of pc
            neg = z3.BoolVal(True)
        else:
            neg = z3.Not(lift_bool(cond))
        _t0 = time.time()
        r = None
        if sat_first and not isinstance(cond, bool):
            r2, s2 = self._pinned_model_search(neg, rounds=12)
            if r2 == 'sat':
                r, msolver = 'sat', s2
                self.stats.q_sat += 1
                info = ((info + ' ') if isinstance(info, str) else '') + '[model found with inputs pinned]'
        if r is None:
            r, msolver = self._decide(neg)
        self.stats.label_s[label] = self.stats.label_s.get(label, 0.0) + time.time() - _t0
        if r == 'unsat':
            self.stats.proved[label] = self.stats.proved.get(label, 0) + 1
            return True
        if r == 'unknown' and isinstance(cond, bool) and not soft:
            # the obligation is concretely false on this path but the solver could not produce a model of the path
            # condition in time: hand an empty model to the replay, which then runs on default concrete inputs
            cex = {'label': label, 'model': dict(getattr(self, 'fixed', {})), 'decisions': [], 'info': (info if isinstance(info, str) else (json.dumps(info, default=str) if info else '')) + ' [no solver model; replayed on default inputs]',
                   'pc_size': len(self.pc)}
            self.stats.q_unknown -= 1
            self.stats.cex.append(cex)
            self.path_cex.append(cex)
            return False
        if r == 'unknown' and not soft and not getattr(self, 'fp_mode', False) and not getattr(self, 'str_mode', False):
            # neither a proof nor a model: look for a model with most inputs pinned to simple values (still the solver's sat verdict on the
            # path condition and the negated obligation, only with extra equalities; a model found this way is replayed like any other)
            r2, s2 = self._pinned_model_search(neg)
            if r2 == 'sat':
                r, msolver = 'sat', s2
                self.stats.q_unknown -= 1
                self.stats.q_sat += 1
                info = ((info + ' ') if isinstance(info, str) else '') + '[model found with inputs pinned]'
        if r == 'unknown':
            if soft:
                # floating-point obligation undecided within the budget: inconclusive-FP (recorded, not a verdict)
                self.stats.q_unknown -= 1
                self.stats.soft_unknown[label] = self.stats.soft_unknown.get(label, 0) + 1
                return None
            self.stats.unknowns.append(label)
            return None
        m = msolver.model()
        if not getattr(self, 'fp_mode', False) and not getattr(self, 'str_mode', False) and hasattr(msolver, 'check'):
            # prefer a counterexample that can be replayed in doubles: no (C-style, unchecked) division with a zero denominator, and
            # real inputs of moderate magnitude (a model value like 1e-400 underflows to 0.0 and then violates its own bound)
            nice = []
            for v_ in self.names.values():
                if z3.is_real(v_) and z3.is_const(v_):
                    nice.append(z3.And(v_ <= 1000, v_ >= -1000, z3.Or(v_ == 0, v_ >= z3.RealVal('1/1000'), v_ <= z3.RealVal('-1/1000'))))
            dz, seen_d = [], set()
            for d_ in getattr(self, 'div_terms', []):
                if d_.get_id() not in seen_d:
                    seen_d.add(d_.get_id())
                    dz.append(d_ != 0)
            for extra in ([dz + nice, dz] if dz else [nice]):
                if not extra:
                    continue
                try:
                    s3 = z3.Solver()
                    s3.set('timeout', min(self.timeout_ms, 5000))
                    s3.add(*self.pc)
                    s3.add(neg)
                    s3.add(*extra)
                    if str(s3.check()) == 'sat':
                        m = s3.model()
                        break
                except z3.Z3Exception:
                    pass
            else:
                # no moderate-magnitude model within the budget: try inputs pinned to small rationals (same query, extra equalities)
                if nice and not (isinstance(info, str) and 'inputs pinned' in info):
                    r4, s4 = self._pinned_model_search(neg, rounds=16)
                    if r4 == 'sat':
                        m = s4.model()
        model = {}
        for n, v in self.names.items():
            val = m.eval(v, model_completion=True)
            model[n] = _model_value(val)
        # values of the uninterpreted environment functions at the points where the run applied them (for the replay in doubles)
        table = []
        try:
            for fname, calls in self.uf_log.items():
                f = None
                for key, fd in self.memo.items():
                    if isinstance(key, tuple) and key[0] == fname and hasattr(fd, 'arity'):
                        f = fd
                        break
                if f is None:
                    continue
                seen_ = set()
                for ts in calls:
                    if len(ts) != f.arity() or len(table) >= 600:
                        continue
                    kk = tuple(t.get_id() for t in ts)
                    if kk in seen_:
                        continue
                    seen_.add(kk)
                    av = [_approx_float(m.eval(t, model_completion=True)) for t in ts]
                    vv = _approx_float(m.eval(f(*ts), model_completion=True))
                    if vv is not None and all(a is not None for a in av):
                        table.append([fname, av, vv])
        except Exception:
            table = []
        if table:
            model['__uf__'] = table
        cex = {'label': label, 'model': model, 'decisions': [list(d) for d in self.decisions[:self.pos]],
               'info': info, 'pc_size': len(self.pc)}
        self.stats.cex.append(cex)
        self.path_cex.append(cex)
        return False


def _approx_float(val):
    if z3.is_int_value(val):
        return float(val.as_long())
    if z3.is_rational_value(val):
        return float(val.as_fraction())
    if z3.is_algebraic_value(val):
        return float(val.approx(30).as_fraction())
    return None


class _ValModel:
    """model read back from cvc5 (get-value): just enough of z3's ModelRef interface for prove()"""
    def __init__(self, values):
        self.values = values

    def model(self):
        return self

    def eval(self, v, model_completion=True):
        n = v.decl().name() if z3.is_const(v) else None
        if n in self.values:
            return self.values[n]
        return v


def cvc5_check(assertions, names, timeout_ms):
    """second opinion for string queries: z3's SMT-LIB dump is parsed and solved by cvc5 (python API)"""
    try:
        import cvc5
    except Exception:
        return 'unknown', None
    s = z3.Solver()
    s.add(*assertions)
    text = '(set-logic ALL)\n' + s.to_smt2()
    nm = [n for n, v in names.items() if z3.is_const(v) and (z3.is_string(v) or z3.is_int(v))]
    if nm:
        text += '\n(get-value (%s))\n' % ' '.join('|%s|' % n if not n.replace('_', 'a').isalnum() else n for n in nm)
    try:
        slv = cvc5.Solver()
        slv.setOption('strings-exp', 'true')
        slv.setOption('produce-models', 'true')
        slv.setOption('tlimit-per', str(int(timeout_ms)))
        p = cvc5.InputParser(slv)
        p.setStringInput(cvc5.InputLanguage.SMT_LIB_2_6, text, 'q')
        sm = p.getSymbolManager()
        outs = []
        while True:
            cmd = p.nextCommand()
            if cmd.isNull():
                break
            o = cmd.invoke(slv, sm)
            if o.strip():
                outs.append(o.strip())
    except Exception:
        return 'unknown', None
    if not outs or outs[0] not in ('sat', 'unsat'):
        return 'unknown', None
    if outs[0] == 'unsat':
        return 'unsat', None
    vals = {}
    if len(outs) > 1:
        import re as _re
        for m in _re.finditer(r'\(\|?([^\s()|]+)\|?\s+("(?:[^"]|"")*"|-?\d+|\(- \d+\))\)', outs[1]):
            k, v = m.group(1), m.group(2)
            if v.startswith('"'):
                vals[k] = z3.StringVal(v[1:-1].replace('""', '"'))
            else:
                vals[k] = z3.IntVal(int(v.replace('(- ', '-').replace(')', '')))
    return 'sat', _ValModel(vals)


def _model_value(val):
    if z3.is_int_value(val):
        return val.as_long()
    if z3.is_rational_value(val):
        fr = val.as_fraction()
        return {'num': str(fr.numerator), 'den': str(fr.denominator), 'float': float(fr)}
    if z3.is_algebraic_value(val):
        a = val.approx(30)
        fr = a.as_fraction()
        return {'num': str(fr.numerator), 'den': str(fr.denominator), 'float': float(fr), 'algebraic': True}
    if z3.is_true(val):
        return True
    if z3.is_false(val):
        return False
    if z3.is_string_value(val):
        return {'str': val.as_string()}
    if z3.is_fp_value(val):
        return {'fp': _fp_to_float(val).hex()}
    return str(val)


def _fp_to_float(val):
    import struct
    if val.isNaN():
        return float('nan')
    if val.isInf():
        return float('-inf') if val.isNegative() else float('inf')
    bv = z3.simplify(z3.fpToIEEEBV(val))
    return struct.unpack('>d', bv.as_long().to_bytes(8, 'big'))[0]


def model_float(v):
    if isinstance(v, dict) and 'str' in v:
        return v['str']
    if isinstance(v, dict) and 'fp' in v:
        return float.fromhex(v['fp'])
    if isinstance(v, dict):
        return Fraction(int(v['num']), int(v['den']))
    return v


# --------------------------------------------------------------------------- float (replay) context
class ReplayMismatch(BaseException):
    """the concrete run does not satisfy an assumption of the harness (counterexample not replayable in doubles)"""


class FloatCtx:
    """Runs a harness once on IEEE doubles (values from a counterexample model, generic stubs)."""
    sym = False
    mode = 'float'

    def __init__(self, model, rtol=1e-9, exact=False):
        self.model = model
        self.rtol = rtol
        self.failed = []     # labels whose property evaluated False
        self.passed = []
        self.stats = Stats()
        self.names = {}
        self.uf_log = {}
        self._fresh = 0
        self.memo = {}

    def run(self, fn):
        global CUR
        prev = CUR
        CUR = self
        MATH.reset()
        try:
            return fn(self)
        finally:
            CUR = prev

    def _val(self, name, default):
        if name in self.model:
            v = model_float(self.model[name])
            return v
        return default

    def real(self, name, lo=None, hi=None, pos=False, nonneg=False):
        d = 1.0
        if lo is not None:
            d = float(lo) + 0.5
        v = float(self._val(name, d))
        if (lo is not None and v < lo) or (hi is not None and v > hi) or (pos and not v > 0) or (nonneg and v < 0):
            raise ReplayMismatch('input %s=%r violates its bounds in doubles' % (name, v))
        return v

    def int(self, name, lo=None, hi=None):
        return int(self._val(name, lo if lo is not None else 0))

    def bool(self, name):
        return bool(self._val(name, False))

    def string(self, name):
        return str(self._val(name, ''))

    def double(self, name, finite=True):
        v = self._val(name, 1.0)
        return float(v)

    def fresh_real(self, hint='t'):
        self._fresh += 1
        return self.real('%s!%d' % (hint, self._fresh))

    def choice(self, name, options):
        return options[self.int('choice_' + name, 0, len(options) - 1)]

    def array(self, name, shape, **kw):
        shp = shape if isinstance(shape, tuple) else (shape,)
        a = _np.empty(shp, dtype=float)
        for idx in itertools.product(*[range(s) for s in shp]):
            a[idx] = self.real('%s_%s' % (name, '_'.join(map(str, idx))), **kw)
        return a

    def uf_lookup(self, name, *args):
        """value the counterexample model gives to the environment function at this point, None if it was not applied there"""
        tab = self.model.get('__uf__') if isinstance(self.model, dict) else None
        if tab:
            fa = [float(a) for a in args]
            best, best_d = None, None
            for (n_, av, vv) in tab:
                if n_ == name and len(av) == len(fa):
                    d = max([abs(x - y) / max(1e-3, abs(x), abs(y)) for x, y in zip(av, fa)] or [0.0])
                    if d <= 1e-9 and (best_d is None or d < best_d):
                        best, best_d = vv, d
            return best
        return None

    def uf(self, name, *args, nonneg=False, pos=False):
        """generic concrete function standing for an environment stub: smooth, positive, injective-ish"""
        import zlib
        vv = self.uf_lookup(name, *args)
        if vv is not None:
            self.uf_log.setdefault(name, []).append([float(a) for a in args])
            return vv
        h = zlib.crc32(name.encode()) % 9973
        s = 0.0
        for k, a in enumerate(args):
            s += (k + 1.37) * (math.atan(float(a)) + 1e-3 * math.sin(float(a)))
        v = 1.0 + 0.5 * math.sin(h + s) + (h % 17) * 0.0625
        self.uf_log.setdefault(name, []).append([float(a) for a in args])
        return v

    def assume(self, c, note=None):
        if not bool(c):
            raise ReplayMismatch('assumption fails in doubles: %s' % (note or ''))

    def assume_div(self, d):
        pass

    def _add(self, c):
        pass

    def feasible(self):
        return True

    def _close(self, a, b, rtol=None):
        rtol = self.rtol if rtol is None else rtol
        a = float(a)
        b = float(b)
        if a == b:
            return True
        return abs(a - b) <= rtol * max(abs(a), abs(b)) + 1e-300

    def eq(self, a, b, rtol=None):
        return self._close(a, b, rtol)

    def le(self, a, b, atol=None):
        a = float(a)
        b = float(b)
        return a <= b or self._close(a, b)

    def lt(self, a, b):
        return float(a) < float(b)

    def all(self, conds):
        return all(bool(c) for c in conds)

    def any(self, conds):
        return any(bool(c) for c in conds)

    def implies(self, a, b):
        return (not bool(a)) or bool(b)

    def not_(self, a):
        return not bool(a)

    def ite(self, c, a, b):
        return a if bool(c) else b

    def cover(self, label):
        self.stats.covers[label] = self.stats.covers.get(label, 0) + 1

    def sample(self, obj):
        pass

    def lemma(self, cond, label, using=None):
        return self.prove(cond, 'lemma:' + label)

    def prove(self, cond, label, info=None, using=None, soft=False, abstract=None, sat_first=False):
        if bool(cond):
            self.passed.append(label)
            return True
        self.failed.append(label)
        return False


# --------------------------------------------------------------------------- math library
class _Math:
    """libc.math over both domains: floats -> libm, proxies -> uninterpreted functions + lemma instances"""

    def __init__(self):
        rs = z3.RealSort()
        self.F = {n: z3.Function(n, rs, rs) for n in
                  ('erf', 'exp', 'log', 'log10', 'pow10', 'sqrt', 'sin', 'cos', 'tan', 'atan', 'asin', 'acos', 'cbrt')}
        self.F2 = {n: z3.Function(n, rs, rs, rs) for n in ('pow', 'atan2', 'fmod')}
        self.PI = None
        self.reset()

    def reset(self):
        self.seen = {}
        self.light = False

    # generic
    def _app(self, name, x, lemma):
        t = lift_real(x)
        f = self.F[name]
        app = f(t)
        if getattr(self, 'light', False):
            return R(app)       # plain uninterpreted application (harnesses that only need functional consistency)
        seen = self.seen.setdefault(name, {})
        key = t.get_id()
        if key not in seen:
            lemma(t, app, [a for a in seen.values()])
            seen[key] = (t, app)
        return R(app)

    def _mono(self, t, app, prev, strict=True):
        c = CUR
        for (a, fa) in prev:
            if strict:
                c._add(z3.And(z3.Implies(a < t, fa < app), z3.Implies(t < a, app < fa), z3.Implies(a == t, fa == app)))
            else:
                c._add(z3.And(z3.Implies(a <= t, fa <= app), z3.Implies(t <= a, app <= fa)))

    # --- erf
    def erf(self, x):
        if not is_sym(x):
            return math.erf(x)

        def lemma(t, app, prev):
            c = CUR
            c._add(z3.And(app > -1, app < 1))
            c._add(z3.Implies(t == 0, app == 0))
            c._add(z3.Implies(t > 0, app > 0))
            c._add(z3.Implies(t < 0, app < 0))
            tail = z3.RealVal(Fraction(2, 10 ** 12))
            c._add(z3.Implies(t >= 5, app >= 1 - tail))
            c._add(z3.Implies(t <= -5, app <= -1 + tail))
            self._mono(t, app, prev)
            # oddness against previously seen arguments
            for (a, fa) in prev:
                c._add(z3.Implies(a == -t, fa == -app))
        return self._app('erf', x, lemma)

    def erfc(self, x):
        """complementary error function by its definition 1 - erf(x) (exact in real arithmetic)"""
        if not is_sym(x):
            return math.erfc(x)
        return 1 - self.erf(x)

    def exp(self, x):
        if not is_sym(x):
            return math.exp(x)

        def lemma(t, app, prev):
            c = CUR
            c._add(app > 0)
            c._add(z3.Implies(t == 0, app == 1))
            c._add(z3.Implies(t > 0, app > 1))
            c._add(z3.Implies(t < 0, app < 1))
            c._add(app >= 1 + t)
            self._mono(t, app, prev)
        return self._app('exp', x, lemma)

    def log(self, x):
        if not is_sym(x):
            return math.log(x)

        def lemma(t, app, prev):
            c = CUR
            c.assume(t > 0, 'log: positive argument')
            c._add(z3.Implies(t == 1, app == 0))
            c._add(self.F['exp'](app) == t)
            self._mono(t, app, prev)
        return self._app('log', x, lemma)

    def log10(self, x):
        if not is_sym(x):
            return math.log10(x)

        def lemma(t, app, prev):
            c = CUR
            c.assume(t > 0, 'log10: positive argument')
            c._add(z3.Implies(t == 1, app == 0))
            c._add(self.F['pow10'](app) == t)
            self._mono(t, app, prev)
        return self._app('log10', x, lemma)

    def pow10(self, x):
        if not is_sym(x):
            return 10.0 ** x

        def lemma(t, app, prev):
            c = CUR
            c._add(app > 0)
            c._add(z3.Implies(t == 0, app == 1))
            self._mono(t, app, prev)
            if z3.is_add(t) and len(t.children()) == 2:
                a, b = t.children()
                c._add(app == self.pow10(R(a)).t * self.pow10(R(b)).t)      # 10**(a+b) = 10**a * 10**b
        return self._app('pow10', x, lemma)

    def _root(self, name, x, cons):
        """algebraic function as a fresh variable constrained by its defining polynomial (keeps queries in pure NRA);
        functional consistency follows from uniqueness of the root"""
        t = lift_real(x)
        if getattr(self, 'light', False) and name in self.F:
            return R(self.F[name](t))       # plain uninterpreted application (functional consistency only)
        seen = self.seen.setdefault(name, {})
        key = t.get_id()
        if key not in seen:
            c = CUR
            c._fresh += 1
            v = z3.Real('%s!%d' % (name, c._fresh))
            seen[key] = (t, v)
            cons(t, v)
        return R(seen[key][1])

    def sqrt(self, x):
        if isinstance(x, D):
            return D(z3.fpSqrt(RNE, x.t))
        if not is_sym(x):
            return math.sqrt(x)

        def cons(t, v):
            c = CUR
            c.assume(t >= 0, 'sqrt: non-negative argument')
            c._add(v >= 0)
            c._add(v * v == t)
        return self._root('sqrt', x, cons)

    def cbrt(self, x):
        if not is_sym(x):
            return math.copysign(abs(x) ** (1.0 / 3.0), x)

        def cons(t, v):
            CUR._add(v * v * v == t)
        return self._root('cbrt', x, cons)

    def _trig_pair(self, t):
        s = self.F['sin'](t)
        co = self.F['cos'](t)
        key = ('sc', t.get_id())
        if key not in self.seen.setdefault('trig', {}):
            self.seen['trig'][key] = True
            c = CUR
            c._add(s * s + co * co == 1)
            c._add(z3.And(s >= -1, s <= 1, co >= -1, co <= 1))
            c._add(z3.Implies(t == 0, z3.And(s == 0, co == 1)))
        return s, co

    def sin(self, x):
        if not is_sym(x):
            return math.sin(x)
        return R(self._trig_pair(lift_real(x))[0])

    def cos(self, x):
        if not is_sym(x):
            return math.cos(x)
        return R(self._trig_pair(lift_real(x))[1])

    def tan(self, x):
        if not is_sym(x):
            return math.tan(x)
        s, co = self._trig_pair(lift_real(x))
        CUR.assume_div(co)
        return R(s / co)

    def atan(self, x):
        if not is_sym(x):
            return math.atan(x)

        def lemma(t, app, prev):
            c = CUR
            s, co = self._trig_pair(app)
            c._add(co > 0)
            c._add(s == t * co)
            self._mono(t, app, prev)
        return self._app('atan', x, lemma)

    def atan2(self, y, x):
        if not (is_sym(x) or is_sym(y)):
            return math.atan2(y, x)
        ty, tx = lift_real(y), lift_real(x)
        app = self.F2['atan2'](ty, tx)
        key = (ty.get_id(), tx.get_id())
        seen = self.seen.setdefault('atan2', {})
        if key not in seen:
            seen[key] = True
            c = CUR
            s, co = self._trig_pair(app)
            r = self.sqrt(R(tx * tx + ty * ty)).t
            c._add(z3.And(r * co == tx, r * s == ty))
            c._add(z3.Implies(z3.And(tx == 0, ty == 0), app == 0))
        return R(app)

    def acos(self, x):
        if not is_sym(x):
            return math.acos(x)

        def lemma(t, app, prev):
            c = CUR
            s, co = self._trig_pair(app)
            c._add(co == t)
            c._add(s >= 0)
        return self._app('acos', x, lemma)

    def asin(self, x):
        if not is_sym(x):
            return math.asin(x)

        def lemma(t, app, prev):
            c = CUR
            s, co = self._trig_pair(app)
            c._add(s == t)
            c._add(co >= 0)
        return self._app('asin', x, lemma)

    def pow(self, a, b):
        if not (is_sym(a) or is_sym(b)):
            return math.pow(a, b)
        if not is_sym(b):
            r = sym_pow_const(a, b)
            if r is not None:
                return r
        ta, tb = lift_real(a), lift_real(b)
        app = self.F2['pow'](ta, tb)
        c = CUR
        c._add(z3.Implies(ta > 0, app > 0))
        c._add(z3.Implies(tb == 0, app == 1))
        c._add(z3.Implies(tb == 1, app == ta))
        return R(app)

    def fabs(self, x):
        if isinstance(x, D):
            return abs(x)
        if not is_sym(x):
            return math.fabs(x)
        return abs(x) if isinstance(x, R) else R(z3.ToReal(abs(x).t))

    def floor(self, x):
        if isinstance(x, D):
            return D(z3.fpRoundToIntegral(z3.RTN(), x.t))
        if not is_sym(x):
            return float(math.floor(x))
        if isinstance(x, I):
            return x
        return R(z3.ToReal(z3.ToInt(x.t)))

    def ceil(self, x):
        if isinstance(x, D):
            return D(z3.fpRoundToIntegral(z3.RTP(), x.t))
        if not is_sym(x):
            return float(math.ceil(x))
        if isinstance(x, I):
            return x
        return R(-z3.ToReal(z3.ToInt(-x.t)))

    def trunc(self, x):
        if isinstance(x, D):
            return D(z3.fpRoundToIntegral(z3.RTZ(), x.t))
        if not is_sym(x):
            return float(math.trunc(x))
        return R(z3.ToReal(trunc_to_int(x).t))

    def fmod(self, x, p):
        """C fmod: result has the sign of x, |r| < |p|, x = k p + r, k integer (real-mode exact)"""
        if not (is_sym(x) or is_sym(p)):
            return math.fmod(x, p)
        if isinstance(x, D) or isinstance(p, D):
            # C99 fmod contract on doubles (finite x, non-zero finite p): |r| < |p|, r has the sign of x (or is zero),
            # r == x when |x| < |p|.  (exactness r = x - n p is not encoded: the contract over-approximates fmod)
            tx, tp = lift_fp(x), lift_fp(p)
            c = CUR
            c._fresh += 1
            r = z3.FP('fmod!%d' % c._fresh, F64)
            c._add(z3.And(z3.Not(z3.fpIsNaN(r)), z3.Not(z3.fpIsInf(r))))
            c._add(z3.fpLT(z3.fpAbs(r), z3.fpAbs(tp)))
            c._add(z3.Or(z3.fpIsZero(r), z3.fpIsNegative(r) == z3.fpIsNegative(tx)))
            c._add(z3.Implies(z3.fpLT(z3.fpAbs(tx), z3.fpAbs(tp)), z3.fpEQ(r, tx)))
            c._add(z3.fpLEQ(z3.fpAbs(r), z3.fpAbs(tx)))
            return D(r)
        tx, tp = lift_real(x), lift_real(p)
        c = CUR
        c.assume_div(tp)
        q = tx / tp
        k = z3.If(q >= 0, z3.ToInt(q), -z3.ToInt(-q))
        return R(tx - z3.ToReal(k) * tp)

    def fmin(self, a, b):
        if not (is_sym(a) or is_sym(b)):
            return min(a, b)
        ta, tb = lift_real(a), lift_real(b)
        return R(z3.If(ta <= tb, ta, tb))

    def fmax(self, a, b):
        if not (is_sym(a) or is_sym(b)):
            return max(a, b)
        ta, tb = lift_real(a), lift_real(b)
        return R(z3.If(ta >= tb, ta, tb))

    def hypot(self, a, b):
        return self.sqrt(a * a + b * b)

    def isnan(self, x):
        if not is_sym(x):
            return math.isnan(x)
        return False

    def isinf(self, x):
        if not is_sym(x):
            return math.isinf(x)
        return False

    def copysign(self, a, b):
        if not (is_sym(a) or is_sym(b)):
            return math.copysign(a, b)
        ta, tb = lift_real(a), lift_real(b)
        aa = z3.If(ta >= 0, ta, -ta)
        return R(z3.If(tb >= 0, aa, -aa))


def sym_pow_const(a, b):
    """a ** b for literal rational exponent b, via root variables; None when unsupported"""
    if isinstance(b, int) or (isinstance(b, float) and b == int(b) and abs(b) <= 8):
        return sym_pow(a, int(b))
    if isinstance(b, float):
        fr = Fraction(b).limit_denominator(16)
        if float(fr) == b and fr.denominator in (2, 4):
            root = MATH.sqrt(a)
            if fr.denominator == 4:
                root = MATH.sqrt(root)
            return sym_pow(root, fr.numerator)
        if float(fr) != b:
            fr3 = Fraction(b).limit_denominator(3)
            if abs(float(fr3) - b) < 1e-15 and fr3.denominator == 3:
                return sym_pow(MATH.cbrt(a), fr3.numerator)
    return None


MATH = _Math()

"""Harness registry and job runner.

A property module (props/cNN.py) registers harness functions with @harness.  A *job* is (harness, params); jobs run in a
process pool.  Per job: symbolic exploration (solver decides every obligation on every path), then each counterexample
model is replayed in IEEE doubles on the same source (FloatCtx) and, where the harness provides one, on the compiled /
imported real code (`replay_real`).
"""
import os
import sys
import json
import time
import hashlib
import traceback

from . import core
from .core import Explorer, FloatCtx, Abort, BoundExceeded, HarnessError, ReplayMismatch

REGISTRY = {}   # prop -> [Harness]


class Harness:
    def __init__(self, prop, name, fn, tiers, functions, cover, universe, replay_real, validate, timeout_ms, notes,
                 max_paths, bounds, stubs, outside, custom=None):
        self.prop, self.name, self.fn = prop, name, fn
        self.tiers, self.functions, self.cover = tiers, functions, cover
        self.universe, self.replay_real, self.validate = universe, replay_real, validate
        self.timeout_ms, self.notes, self.max_paths = timeout_ms, notes, max_paths
        self.bounds, self.stubs, self.outside = bounds, stubs, outside
        self.custom = custom


def harness(prop, name=None, tiers=None, functions=(), cover=(), universe=None, replay_real=None, validate=None,
            timeout_ms=None, notes='', max_paths=20000, bounds=None, stubs=(), outside=(), custom=None):
    """tiers: {'quick': [param dicts], 'thorough': [param dicts]}"""
    def deco(fn):
        h = Harness(prop, name or fn.__name__, fn, tiers or {'quick': [{}], 'thorough': [{}]}, list(functions),
                    list(cover), universe, replay_real, validate, timeout_ms, notes, max_paths, bounds or {},
                    list(stubs), list(outside), custom)
        REGISTRY.setdefault(prop, []).append(h)
        fn.harness = h
        return fn
    return deco


def find(prop, name):
    for h in REGISTRY.get(prop, []):
        if h.name == name:
            return h
    raise KeyError(name)


def _mk_universe(h):
    from .universe import Universe
    if h.universe is None:
        return Universe()
    return h.universe()


def run_job(prop, hname, params, tier, seed):
    """runs in a worker process; returns a JSON-able dict"""
    t0 = time.time()
    h = find(prop, hname)
    if h.custom is not None:
        base = {'harness': hname, 'params': params, 'error': None, 'violations': [], 'paths': 0, 'aborted': 0,
                'forks': 0, 'q_unsat': 0, 'q_sat': 0, 'q_unknown': 0, 'solver_s': 0.0, 'proved': {}, 'covers': {},
                'unknowns': [], 'n_unknown': 0, 'div_sites': 0, 'assumes': [], 'samples': [], 'files': [],
                'assumed_feasible': 0}
        try:
            base.update(h.custom(h, params, tier, seed))
        except BaseException as e:  # noqa
            base['error'] = '%s: %s\n%s' % (type(e).__name__, e, traceback.format_exc()[-2000:])
        base['wall_s'] = round(time.time() - t0, 2)
        return base
    res = {'harness': hname, 'params': params, 'error': None, 'violations': [], 'spurious': 0}
    tmo = h.timeout_ms or (20000 if tier == 'quick' else 120000)
    ex = Explorer(timeout_ms=tmo, max_paths=h.max_paths, seed=seed)
    import signal

    def _alarm(sig, frm):
        raise BoundExceeded('job wall-time limit reached')
    signal.signal(signal.SIGALRM, _alarm)
    signal.alarm(int(os.environ.get('SYMX_JOB_LIMIT_S', '900' if tier == 'quick' else '5400')))
    try:
        uni = _mk_universe(h)
        nval = 0
        if h.validate is not None:
            nval = h.validate(uni, **params) or 0
        res['translator_validation_cases'] = nval
        ex.explore(lambda e: h.fn(e, uni, **params))
    except (BoundExceeded,) as e:
        res['error'] = 'BoundExceeded: %s' % e
    except HarnessError as e:
        res['error'] = 'HarnessError: %s' % e
    except BaseException as e:  # noqa
        res['error'] = '%s: %s\n%s' % (type(e).__name__, e, traceback.format_exc()[-3000:])
    signal.alarm(0)
    st = ex.stats
    res.update(paths=st.paths, aborted=st.aborted, forks=st.forks, q_unsat=st.q_unsat, q_sat=st.q_sat,
               q_unknown=st.q_unknown, solver_s=round(st.solver_s, 3), proved=st.proved, covers=st.covers,
               unknowns=st.unknowns[:20], n_unknown=len(st.unknowns), div_sites=st.div_sites, assumes=st.assumes,
               samples=st.samples, assumed_feasible=st.assumed_feasible, cut_unsettled=st.cut_unsettled, soft_unknown=st.soft_unknown, label_s={k: round(v, 2) for k, v in st.label_s.items()})
    try:
        res['files'] = list(uni.loaded_files)
    except Exception:
        res['files'] = []
    # vacuity: required covers
    missing = [c for c in h.cover if not st.covers.get(c)]
    if missing and not res['error']:
        res['error'] = 'vacuity: cover labels never reached: %s' % missing
    # replay counterexamples (per label: first 3 distinct models)
    seen = {}
    for cex in st.cex:
        lab = cex['label']
        if seen.get(lab, 0) >= 3:
            continue
        seen[lab] = seen.get(lab, 0) + 1
        v = {'label': lab, 'model': cex['model'], 'info': cex['info'], 'params': params, 'harness': hname}
        fc = FloatCtx(cex['model'])
        try:
            fc.run(lambda e: h.fn(e, uni, **params))
            v['float_replay'] = 'reproduced' if lab in fc.failed else 'not-reproduced'
            v['float_failed'] = sorted(set(fc.failed))
        except ReplayMismatch as e:
            # the model only fixes the inputs that existed when the obligation was stated: an assumption about inputs introduced
            # *later* in the harness may fail on their default values; the obligation itself has been re-evaluated by then
            if lab in fc.failed:
                v['float_replay'] = 'reproduced'
                v['float_failed'] = sorted(set(fc.failed))
            else:
                v['float_replay'] = 'mismatch: %s' % e
        except BaseException as e:  # noqa
            if lab in fc.failed:
                v['float_replay'] = 'reproduced'
                v['float_failed'] = sorted(set(fc.failed))
            else:
                v['float_replay'] = 'error: %s: %s' % (type(e).__name__, str(e)[:300])
            if os.environ.get('SYMX_DEBUG_REPLAY'):
                traceback.print_exc()
        if h.replay_real is not None and v['float_replay'] == 'reproduced':
            try:
                rr = h.replay_real(cex['model'], lab, **params)
                v['real_replay'] = rr
            except BaseException as e:  # noqa
                v['real_replay'] = 'error: %s: %s' % (type(e).__name__, str(e)[:300])
        res['violations'].append(v)
    res['n_cex'] = len(st.cex)
    res['cex_labels'] = sorted({c['label'] for c in st.cex})
    res['wall_s'] = round(time.time() - t0, 2)
    return res


def replay_file(path):
    with open(path) as f:
        rp = json.load(f)
    h = find(rp['property'], rp['harness'])
    if h.custom is not None:
        import importlib
        mod = importlib.import_module(h.fn.__module__)
        return mod.replay(rp)
    uni = _mk_universe(h)
    fc = FloatCtx(rp['model'])
    try:
        fc.run(lambda e: h.fn(e, uni, **rp['params']))
    except ReplayMismatch as e:
        return False, 'mismatch: %s' % e
    ok = rp['label'] in fc.failed
    detail = {'failed': sorted(set(fc.failed))}
    if ok and h.replay_real is not None:
        detail['real'] = h.replay_real(rp['model'], rp['label'], **rp['params'])
    return ok, detail

"""Models of the raysect surface that cherab code touches and that must carry symbolic values.

Anything not listed in MODELS resolves to the real raysect object (fine for classes that are only used as types,
base classes of untouched code, or constants).
"""
import numpy as np

from . import core
from .core import is_sym, MATH, R, I, HarnessError


# ------------------------------------------------------------------ functions
class _Fn:
    _sx_cdef_class_ = True

    def __call__(self, *a):
        return self.evaluate(*a)

    def evaluate(self, *a):
        raise NotImplementedError('evaluate of ' + type(self).__name__)

    # raysect function arithmetic (subset)
    def _bin(self, o, op):
        cls = _base_of(self)
        oo = o

        class _Op(cls):
            def __init__(s_):
                pass

            def evaluate(s_, *a):
                l = self.evaluate(*a)
                r = oo.evaluate(*a) if isinstance(oo, _Fn) else oo
                return op(l, r)
        return _Op()

    def __add__(self, o):
        return self._bin(o, lambda a, b: a + b)

    def __radd__(self, o):
        return self._bin(o, lambda a, b: b + a)

    def __sub__(self, o):
        return self._bin(o, lambda a, b: a - b)

    def __rsub__(self, o):
        return self._bin(o, lambda a, b: b - a)

    def __mul__(self, o):
        return self._bin(o, lambda a, b: a * b)

    def __rmul__(self, o):
        return self._bin(o, lambda a, b: b * a)

    def __truediv__(self, o):
        return self._bin(o, lambda a, b: a / b)

    def __rtruediv__(self, o):
        return self._bin(o, lambda a, b: b / a)

    def __neg__(self):
        return self._bin(0, lambda a, b: -a)


class Function1D(_Fn):
    pass


class Function2D(_Fn):
    pass


class Function3D(_Fn):
    pass


class VectorFunction1D(_Fn):
    pass


class VectorFunction2D(_Fn):
    pass


class VectorFunction3D(_Fn):
    pass


def _base_of(f):
    for b in (Function1D, Function2D, Function3D, VectorFunction1D, VectorFunction2D, VectorFunction3D):
        if isinstance(f, b):
            return b
    return _Fn


def _mk_const(base, name):
    class Const(base):
        def __init__(self, value):
            self.value = value

        def evaluate(self, *a):
            return self.value
    Const.__name__ = name
    return Const


def _mk_py(base, name):
    class Py(base):
        def __init__(self, function):
            self.function = function

        def evaluate(self, *a):
            return self.function(*a)
    Py.__name__ = name
    return Py


Constant1D = _mk_const(Function1D, 'Constant1D')
Constant2D = _mk_const(Function2D, 'Constant2D')
Constant3D = _mk_const(Function3D, 'Constant3D')
ConstantVector1D = _mk_const(VectorFunction1D, 'ConstantVector1D')
ConstantVector2D = _mk_const(VectorFunction2D, 'ConstantVector2D')
ConstantVector3D = _mk_const(VectorFunction3D, 'ConstantVector3D')
PythonFunction1D = _mk_py(Function1D, 'PythonFunction1D')
PythonFunction2D = _mk_py(Function2D, 'PythonFunction2D')
PythonFunction3D = _mk_py(Function3D, 'PythonFunction3D')
PythonVectorFunction1D = _mk_py(VectorFunction1D, 'PythonVectorFunction1D')
PythonVectorFunction2D = _mk_py(VectorFunction2D, 'PythonVectorFunction2D')
PythonVectorFunction3D = _mk_py(VectorFunction3D, 'PythonVectorFunction3D')


def _mk_autowrap(base, const, py, vector=False):
    def autowrap(obj):
        if isinstance(obj, base):
            return obj
        if vector:
            if isinstance(obj, Vector3D):
                return const(obj)
        elif isinstance(obj, (int, float)) or is_sym(obj) or isinstance(obj, np.floating):
            return const(obj)
        if callable(obj):
            return py(obj)
        raise TypeError('cannot autowrap %r' % (obj,))
    return autowrap


class Arg1D(Function1D):
    def evaluate(self, x):
        return x


class Arg2D(Function2D):
    def __init__(self, argument):
        if argument not in ('x', 'y'):
            raise ValueError("The argument to Arg2D must be either 'x' or 'y'")
        self.a = argument

    def evaluate(self, x, y):
        return x if self.a == 'x' else y


class Arg3D(Function3D):
    def __init__(self, argument):
        if argument not in ('x', 'y', 'z'):
            raise ValueError("The argument to Arg3D must be either 'x', 'y' or 'z'")
        self.a = argument

    def evaluate(self, x, y, z):
        return {'x': x, 'y': y, 'z': z}[self.a]


# ------------------------------------------------------------------ vectors / points
class Vector3D:
    def __init__(self, x=0.0, y=0.0, z=1.0):
        self.x, self.y, self.z = x, y, z

    def __iter__(self):
        return iter((self.x, self.y, self.z))

    def __getitem__(self, i):
        return (self.x, self.y, self.z)[i]

    def __neg__(self):
        return Vector3D(-self.x, -self.y, -self.z)

    def __add__(self, o):
        return Vector3D(self.x + o.x, self.y + o.y, self.z + o.z)

    def __sub__(self, o):
        return Vector3D(self.x - o.x, self.y - o.y, self.z - o.z)

    def __mul__(self, s):
        if isinstance(s, AffineMatrix3D):
            return NotImplemented
        return Vector3D(self.x * s, self.y * s, self.z * s)
    __rmul__ = __mul__

    def __truediv__(self, s):
        return Vector3D(self.x / s, self.y / s, self.z / s)

    def dot(self, o):
        return self.x * o.x + self.y * o.y + self.z * o.z

    def cross(self, o):
        return Vector3D(self.y * o.z - self.z * o.y, self.z * o.x - self.x * o.z, self.x * o.y - self.y * o.x)

    def get_length(self):
        return MATH.sqrt(self.x * self.x + self.y * self.y + self.z * self.z)

    def set_length(self, v):
        """raysect Vector3D.set_length: ZeroDivisionError for the zero vector, else rescale by v / sqrt(x^2 + y^2 + z^2)"""
        t = self.x * self.x + self.y * self.y + self.z * self.z
        if t == 0.0:
            raise ZeroDivisionError('A zero length vector can not be rescaled as the direction of a zero length vector is undefined.')
        t = v / MATH.sqrt(t)
        self.x = self.x * t
        self.y = self.y * t
        self.z = self.z * t

    length = property(get_length, set_length)

    def normalise(self):
        l = self.get_length()
        if not is_sym(l) and l == 0:
            raise ZeroDivisionError('A zero length vector cannot be normalised')
        return Vector3D(self.x / l, self.y / l, self.z / l)

    def transform(self, m):
        a = m.m
        return Vector3D(a[0][0] * self.x + a[0][1] * self.y + a[0][2] * self.z,
                        a[1][0] * self.x + a[1][1] * self.y + a[1][2] * self.z,
                        a[2][0] * self.x + a[2][1] * self.y + a[2][2] * self.z)

    def mul(self, s):
        return self * s

    def add(self, o):
        return self + o

    def sub(self, o):
        return self - o

    def div(self, s):
        return self / s

    def neg(self):
        return -self

    def copy(self):
        return Vector3D(self.x, self.y, self.z)

    def angle(self, o):
        raise HarnessError('Vector3D.angle not modelled')

    def __repr__(self):
        return 'Vector3D(%r, %r, %r)' % (self.x, self.y, self.z)


def new_vector3d(x, y, z):
    return Vector3D(x, y, z)


class Point3D:
    def __init__(self, x=0.0, y=0.0, z=0.0):
        self.x, self.y, self.z = x, y, z

    def __iter__(self):
        return iter((self.x, self.y, self.z))

    def __getitem__(self, i):
        return (self.x, self.y, self.z)[i]

    def __add__(self, v):
        return Point3D(self.x + v.x, self.y + v.y, self.z + v.z)

    def __sub__(self, v):
        return Point3D(self.x - v.x, self.y - v.y, self.z - v.z)

    def vector_to(self, p):
        return Vector3D(p.x - self.x, p.y - self.y, p.z - self.z)

    def distance_to(self, p):
        return self.vector_to(p).get_length()

    def transform(self, m):
        a = m.m
        x = a[0][0] * self.x + a[0][1] * self.y + a[0][2] * self.z + a[0][3]
        y = a[1][0] * self.x + a[1][1] * self.y + a[1][2] * self.z + a[1][3]
        z = a[2][0] * self.x + a[2][1] * self.y + a[2][2] * self.z + a[2][3]
        return Point3D(x, y, z)

    def add(self, v):
        return self + v

    def sub(self, v):
        return self - v

    def copy(self):
        return Point3D(self.x, self.y, self.z)

    def __repr__(self):
        return 'Point3D(%r, %r, %r)' % (self.x, self.y, self.z)


def new_point3d(x, y, z):
    return Point3D(x, y, z)


class Point2D:
    def __init__(self, x=0.0, y=0.0):
        self.x, self.y = x, y

    def __iter__(self):
        return iter((self.x, self.y))

    def __getitem__(self, i):
        return (self.x, self.y)[i]


def new_point2d(x, y):
    return Point2D(x, y)


class AffineMatrix3D:
    """4x4 affine matrix with symbolic entries (last row 0 0 0 1)"""
    def __init__(self, m=None):
        if m is None:
            m = [[1.0 if i == j else 0.0 for j in range(4)] for i in range(4)]
        self.m = [list(r) for r in m]

    def __mul__(self, o):
        if isinstance(o, AffineMatrix3D):
            a, b = self.m, o.m
            return AffineMatrix3D([[sum((a[i][k] * b[k][j] for k in range(4)), 0.0) for j in range(4)] for i in range(4)])
        return NotImplemented

    def mul(self, o):
        return self * o

    def get_element(self, r, c):
        return self.m[r][c]

    def __getitem__(self, rc):
        return self.m[rc[0]][rc[1]]

    def inverse(self):
        raise HarnessError('AffineMatrix3D.inverse not modelled (supply to/from pair explicitly)')


def rotate_z(deg):
    """raysect.core.rotate_z: right-handed rotation about z by `deg` degrees"""
    import math as _m
    a = deg * _m.pi / 180.0   # left-to-right so that (phi / pi * 180) * pi / 180 == phi exactly in real mode
    c, s_ = MATH.cos(a), MATH.sin(a)
    return AffineMatrix3D([[c, -s_, 0.0, 0.0], [s_, c, 0.0, 0.0], [0.0, 0.0, 1.0, 0.0], [0.0, 0.0, 0.0, 1.0]])


def clamp(v, mn, mx):
    """raysect.core.math.cython.clamp"""
    import math as _m
    if not (isinstance(mn, float) and _m.isinf(mn)):
        if v < mn:
            return mn
    if not (isinstance(mx, float) and _m.isinf(mx)):
        if v > mx:
            return mx
    return v


def translate(x, y, z):
    return AffineMatrix3D([[1.0, 0.0, 0.0, x], [0.0, 1.0, 0.0, y], [0.0, 0.0, 1.0, z], [0.0, 0.0, 0.0, 1.0]])


# ------------------------------------------------------------------ spectrum
class Spectrum:
    def __init__(self, min_wavelength, max_wavelength, bins):
        self.min_wavelength = min_wavelength
        self.max_wavelength = max_wavelength
        self.bins = bins
        self.delta_wavelength = (max_wavelength - min_wavelength) / bins
        sym = core.CUR is not None and core.CUR.sym
        self.samples = np.empty(bins, dtype=object if sym else float)
        self.samples.fill(0.0)
        self.samples_mv = self.samples

    @property
    def wavelengths(self):
        sym = core.CUR is not None and core.CUR.sym
        w = np.empty(self.bins, dtype=object if sym else float)
        for i in range(self.bins):
            w[i] = self.min_wavelength + (0.5 + i) * self.delta_wavelength
        return w

    def new_spectrum(self):
        return Spectrum(self.min_wavelength, self.max_wavelength, self.bins)

    def copy(self):
        s = self.new_spectrum()
        s.samples[:] = self.samples
        return s

    def is_compatible(self, mn, mx, bins):
        return self.min_wavelength == mn and self.max_wavelength == mx and self.bins == bins

    def total(self):
        t = 0.0
        for v in self.samples:
            t = t + v * self.delta_wavelength
        return t

    def clear(self):
        self.samples.fill(0.0)

    def mul_scalar(self, v):
        for i in range(self.bins):
            self.samples[i] = self.samples[i] * v

    def add_array(self, a):
        for i in range(self.bins):
            self.samples[i] = self.samples[i] + a[i]


def new_spectrum(mn, mx, bins):
    return Spectrum(mn, mx, bins)


MODELS = {
    'Spectrum': Spectrum, 'new_spectrum': new_spectrum,
    'Vector3D': Vector3D, 'Point3D': Point3D, 'Point2D': Point2D, 'AffineMatrix3D': AffineMatrix3D,
    'new_vector3d': new_vector3d, 'new_point3d': new_point3d, 'new_point2d': new_point2d, 'translate': translate,
    'rotate_z': rotate_z, 'clamp': clamp,
    'Arg1D': Arg1D, 'Arg2D': Arg2D, 'Arg3D': Arg3D,
}

_FLOAT_FN = {
    'Function1D': Function1D, 'Function2D': Function2D, 'Function3D': Function3D,
    'Constant1D': Constant1D, 'Constant2D': Constant2D, 'Constant3D': Constant3D,
    'PythonFunction1D': PythonFunction1D, 'PythonFunction2D': PythonFunction2D, 'PythonFunction3D': PythonFunction3D,
    'autowrap_function1d': _mk_autowrap(Function1D, Constant1D, PythonFunction1D),
    'autowrap_function2d': _mk_autowrap(Function2D, Constant2D, PythonFunction2D),
    'autowrap_function3d': _mk_autowrap(Function3D, Constant3D, PythonFunction3D),
}
_VEC_FN = {
    'Function1D': VectorFunction1D, 'Function2D': VectorFunction2D, 'Function3D': VectorFunction3D,
    'Constant1D': ConstantVector1D, 'Constant2D': ConstantVector2D, 'Constant3D': ConstantVector3D,
    'PythonFunction1D': PythonVectorFunction1D, 'PythonFunction2D': PythonVectorFunction2D,
    'PythonFunction3D': PythonVectorFunction3D,
    'autowrap_function1d': _mk_autowrap(VectorFunction1D, ConstantVector1D, PythonVectorFunction1D, True),
    'autowrap_function2d': _mk_autowrap(VectorFunction2D, ConstantVector2D, PythonVectorFunction2D, True),
    'autowrap_function3d': _mk_autowrap(VectorFunction3D, ConstantVector3D, PythonVectorFunction3D, True),
}


def resolve(modname, name):
    """model for raysect name or None (-> real raysect object)"""
    if 'function.vector3d' in modname:
        if name in _VEC_FN:
            return _VEC_FN[name]
    if 'function' in modname or modname in ('raysect.core.math', 'raysect.core', 'raysect.optical'):
        if 'vector3d' not in modname and name in _FLOAT_FN:
            return _FLOAT_FN[name]
    if name in MODELS:
        return MODELS[name]
    return None

"""runtime support referenced by translated code (`_sx_`), builtin overrides, libc shims"""
import math
import builtins
from fractions import Fraction

import z3

from . import core
from .core import R, I, B, S, MATH, is_sym, HarnessError


class IntAttr:
    """cdef int attribute of a cdef class: C default 0, truncation on assignment"""
    def __init__(self, name):
        self.slot = '_sxi_' + name

    def __set_name__(self, owner, name):
        self.slot = '_sxi_' + name

    def __get__(self, obj, tp=None):
        if obj is None:
            return self
        return obj.__dict__.get(self.slot, 0)

    def __set__(self, obj, v):
        obj.__dict__[self.slot] = core.trunc_to_int(v) if not isinstance(v, int) else v


class ArrAttr:
    """C array attribute of a cdef class (e.g. `int shape[3]`): zero-initialised per instance"""
    def __init__(self, name, n):
        self.slot, self.n = '_sxa_' + name, n

    def __get__(self, obj, tp=None):
        if obj is None:
            return self
        d = obj.__dict__
        if self.slot not in d:
            d[self.slot] = [0] * self.n
        return d[self.slot]

    def __set__(self, obj, v):
        obj.__dict__[self.slot] = list(v)


def cdef_method(fn):
    fn._sx_cdef_ = True
    return fn


class Runtime:
    IntAttr = IntAttr
    ArrAttr = ArrAttr
    cdef_method = staticmethod(cdef_method)

    @staticmethod
    def toint(v):
        if isinstance(v, bool):
            return int(v)
        if isinstance(v, int):
            return v
        if is_sym(v):
            return core.trunc_to_int(v)
        return int(v)

    @staticmethod
    def cdiv(a, b):
        """true division inside cdivision(True) code"""
        if is_sym(a) or is_sym(b):
            return a / b
        try:
            return a / b
        except ZeroDivisionError:
            if isinstance(a, builtins.int) and isinstance(b, builtins.int):
                raise        # C integer division by zero is undefined behaviour: keep the error visible
            fa = builtins.float(a)
            if fa != fa or fa == 0.0:
                return builtins.float('nan')
            neg = (fa < 0) != (math.copysign(1.0, builtins.float(b)) < 0)
            return builtins.float('-inf') if neg else builtins.float('inf')

    @staticmethod
    def truth(v):
        """C truth value of an expression as 1 / 0 (forks on a symbolic condition)"""
        return 1.0 if v else 0.0

    @staticmethod
    def todouble(v):
        if isinstance(v, I):
            return R(z3.ToReal(v.t))
        if isinstance(v, R):
            return v
        if isinstance(v, B):
            return R(core.lift_real(v))
        return float(v)

    @staticmethod
    def pow(a, b):
        if is_sym(a) or is_sym(b):
            return core.sym_pow(a, b)
        return a ** b

    @staticmethod
    def mod(a, b, cdiv):
        if is_sym(a) or is_sym(b):
            if isinstance(a, (I, int)) and isinstance(b, (I, int)):
                return a % b if not isinstance(a, int) else I(z3.IntVal(a)) % b
            if cdiv:
                return MATH.fmod(a, b)
            # python semantics: result has the sign of the divisor: a - floor(a/b)*b
            ta, tb = core.lift_real(a), core.lift_real(b)
            core.CUR.assume_div(tb)
            return R(ta - z3.ToReal(z3.ToInt(ta / tb)) * tb)
        if cdiv and (isinstance(a, float) or isinstance(b, float)):
            return math.fmod(a, b)
        if cdiv and isinstance(a, int) and isinstance(b, int):
            return int(math.fmod(a, b))
        return a % b

    @staticmethod
    def mvbase(v):
        import numpy as _np
        if isinstance(v, _np.ndarray):
            return v
        return v.base

    @staticmethod
    def notnone(v, name):
        if v is None:
            raise TypeError("Argument '%s' must not be None" % name)


class CythonShim:
    """`cimport cython` : decorators are identities"""
    def __getattr__(self, name):
        def deco(*a, **k):
            if len(a) == 1 and callable(a[0]) and not k:
                return a[0]

            class _Ctx:
                def __call__(self, f):
                    return f

                def __enter__(self):
                    return self

                def __exit__(self, *e):
                    return False
            return _Ctx()
        return deco


# ------------------------------------------------------------------ builtins seen by loaded code
def sx_max(*args, **kw):
    if len(args) == 1:
        args = tuple(args[0])
    if kw or not any(is_sym(a) for a in args):
        return builtins.max(args, **kw)
    r = args[0]
    for a in args[1:]:
        r = _sel(r >= a, r, a)
    return r


def sx_min(*args, **kw):
    if len(args) == 1:
        args = tuple(args[0])
    if kw or not any(is_sym(a) for a in args):
        return builtins.min(args, **kw)
    r = args[0]
    for a in args[1:]:
        r = _sel(r <= a, r, a)
    return r


def _sel(c, a, b):
    if isinstance(c, bool):
        return a if c else b
    if isinstance(a, (I, int)) and isinstance(b, (I, int)) and not isinstance(a, bool) and not isinstance(b, bool):
        return I(z3.If(c.t, core.lift_int(a), core.lift_int(b)))
    return R(z3.If(c.t, core.lift_real(a), core.lift_real(b)))


class _SxFloatMeta(type):
    def __instancecheck__(cls, obj):
        return isinstance(obj, (builtins.float, R))


FLOAT_TOKENS = {}     # concrete float -> value standing for it (provenance tags of numbers read from generated text; see props/c08.py)


class sx_float(metaclass=_SxFloatMeta):
    """float() that lets symbolic reals through; isinstance(x, float) accepts symbolic reals"""
    def __new__(cls, v=0.0):
        if isinstance(v, R):
            return v
        if FLOAT_TOKENS and isinstance(v, builtins.str):
            f = builtins.float(v)
            return FLOAT_TOKENS.get(f, f)
        if isinstance(v, I):
            return R(z3.ToReal(v.t))
        return builtins.float(v)


class _SxIntMeta(type):
    def __instancecheck__(cls, obj):
        return isinstance(obj, (builtins.int, I))


class sx_int(metaclass=_SxIntMeta):
    def __new__(cls, v=0, *a):
        if is_sym(v):
            return core.trunc_to_int(v)
        if isinstance(v, builtins.str) and '\x00' in v:
            from . import symstr
            t = symstr.lift(v)
            if z3.is_app(t) and t.decl().name() in ('int.to.str', 'str.from_int'):
                return symstr.SInt(I(t.arg(0)))
            raise HarnessError('int() of a symbolic string that is not a rendered integer')
        if type(v).__name__ == 'SInt':
            return v
        return builtins.int(v, *a)


def sx_round(v, n=None):
    if is_sym(v):
        return v.__round__(n)
    return builtins.round(v, n) if n is not None else builtins.round(v)


def sx_sum(it, start=0):
    r = start
    for v in it:
        r = r + v
    return r


def sx_abs(v):
    return builtins.abs(v)


class _SxStrMeta(type):
    def __instancecheck__(cls, obj):
        return isinstance(obj, (builtins.str, S))


class sx_str(metaclass=_SxStrMeta):
    """str() that lets symbolic strings through"""
    def __new__(cls, v='', *a):
        if isinstance(v, S):
            return v
        return builtins.str(v, *a)

    join = staticmethod(builtins.str.join)
    format = staticmethod(builtins.str.format)
    lower = staticmethod(builtins.str.lower)
    upper = staticmethod(builtins.str.upper)
    maketrans = staticmethod(builtins.str.maketrans)


class HashTerm:
    """hash of a tuple with symbolic members, kept structural"""
    def __init__(self, fields):
        self.fields = fields


def sx_hash(obj):
    def symbolic(o):
        if is_sym(o) or isinstance(o, HashTerm):
            return True
        if isinstance(o, tuple):
            return any(symbolic(x) for x in o)
        if getattr(type(o), '_sx_cdef_class_', False):
            return any(symbolic(x) for x in vars(o).values())
        return False
    if symbolic(obj):
        if isinstance(obj, tuple):
            return HashTerm(tuple(sx_hash(o) if not is_sym(o) else o for o in obj))
        if is_sym(obj) or isinstance(obj, HashTerm):
            return obj
        return type(obj).__hash__(obj)
    return builtins.hash(obj)


BUILTIN_OVERRIDES = {'str': sx_str, 'hash': sx_hash, 'max': sx_max, 'min': sx_min, 'float': sx_float, 'int': sx_int, 'round': sx_round, 'sum': sx_sum}


# ------------------------------------------------------------------ libc
_CONSTS = {
    'M_PI': math.pi, 'M_SQRT2': math.sqrt(2.0), 'M_E': math.e, 'M_PI_2': math.pi / 2, 'M_PI_4': math.pi / 4,
    'M_1_PI': 1 / math.pi, 'M_2_PI': 2 / math.pi, 'M_SQRT1_2': math.sqrt(0.5), 'M_LN2': math.log(2.0),
    'M_LN10': math.log(10.0), 'M_2_SQRTPI': 2 / math.sqrt(math.pi), 'INFINITY': float('inf'), 'NAN': float('nan'),
    'HUGE_VAL': float('inf'), 'pi': math.pi, 'e': math.e,
}


def libc_math(name):
    if name in _CONSTS:
        return _CONSTS[name]
    if name == 'pow':
        return lambda a, b: Runtime.pow(a, b) if (is_sym(a) or is_sym(b)) else math.pow(a, b)
    if name in ('floor', 'ceil', 'trunc'):
        return getattr(MATH, name)
    if name in ('fabs', 'abs'):
        return MATH.fabs
    if name == 'isnan':
        return MATH.isnan
    if name in ('isinf', 'isfinite'):
        return (lambda x: True) if name == 'isfinite' else MATH.isinf
    f = getattr(MATH, name, None)
    if f is None:
        if hasattr(math, name):
            real = getattr(math, name)

            def g(*a):
                if any(is_sym(x) for x in a):
                    raise HarnessError('libc.math.%s on symbolic value is not modelled' % name)
                return real(*a)
            return g
        raise HarnessError('libc.math.%s is not modelled' % name)
    return f


def libc_other(mod, name):
    if name in ('INT_MAX',):
        return 2 ** 31 - 1
    if name in ('INT_MIN',):
        return -2 ** 31
    if name in ('DBL_MAX',):
        import sys
        return sys.float_info.max
    if name in ('DBL_EPSILON',):
        import sys
        return sys.float_info.epsilon
    from .universe import Unresolved
    return Unresolved(mod, name)

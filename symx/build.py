"""keep the compiled cherab extension modules in /repo in step with the working tree (needed for translator
validation and for replaying counterexamples on the compiled code).  Incremental: setup.py build_ext --inplace only
recompiles what cythonize considers out of date (one touched .pyx ~17 s, nothing touched ~3 s, skipped entirely when no
.pyx/.pxd is newer than the last successful build)."""
import os
import sys
import glob
import time
import fcntl
import subprocess

REPO = os.environ.get('SYMX_REPO', '/repo')
CACHE = os.path.join(os.path.dirname(os.path.dirname(os.path.abspath(__file__))), '.cache')
STAMP = os.path.join(CACHE, 'build_stamp')


def _sources():
    return glob.glob(os.path.join(REPO, 'cherab', '**', '*.pyx'), recursive=True) + \
        glob.glob(os.path.join(REPO, 'cherab', '**', '*.pxd'), recursive=True)


def stale():
    if not os.path.exists(STAMP):
        return True
    t = os.path.getmtime(STAMP)
    for f in _sources():
        if os.path.getmtime(f) > t:
            return True
        if f.endswith('.pyx') and not glob.glob(f[:-4] + '.*.so'):
            return True
    return False


def ensure_built(force=False):
    """returns seconds spent; raises RuntimeError when the build fails"""
    os.makedirs(CACHE, exist_ok=True)
    if not force and not stale():
        return 0.0
    t0 = time.time()
    with open(os.path.join(CACHE, 'build.lock'), 'w') as lk:
        fcntl.flock(lk, fcntl.LOCK_EX)
        if force or stale():
            start = time.time()
            env = dict(os.environ)
            env.pop('PYTHONPATH', None)
            p = subprocess.run(['/venv/bin/python', 'setup.py', 'build_ext', '--inplace', '-j', '16'], cwd=REPO,
                               stdout=subprocess.PIPE, stderr=subprocess.STDOUT, env=env)
            with open(os.path.join(CACHE, 'build.log'), 'wb') as f:
                f.write(p.stdout)
            if p.returncode != 0:
                raise RuntimeError('in-place build of /repo failed, see %s' % os.path.join(CACHE, 'build.log'))
            with open(STAMP, 'w') as f:
                f.write(str(start))
            os.utime(STAMP, (start, start))
    return time.time() - t0


if __name__ == '__main__':
    if '--setup' in sys.argv:
        try:
            s = ensure_built(force=True)
        except RuntimeError as e:
            print(e)
            sys.exit(3)
        print('build ok (%.1fs)' % s)

"""Symbolic strings carried through real string code as sentinel-encoded Python `str` objects, plus an in-memory
file system / JSON / os / numpy environment for the repository modules (C06, C08).

A symbolic string term (z3 String) is represented inside ordinary Python strings by the marker "\\0<n>\\0".  Such strings
survive '{}'.format, %, +, posixpath.join and use as dict keys; they are lifted back to z3 concatenations at the
environment boundary (file lookup, JSON key lookup), where equality is decided by the solver (fork).
"""
import re
import posixpath
import types

import z3

from . import core
from .core import B, I, HarnessError

_MARK = re.compile('(\x00\\d+\x00)')
LOWER = z3.Function('LOWER', z3.StringSort(), z3.StringSort())


def _reg():
    ex = core.CUR
    r = ex.memo.get('symstr')
    if r is None:
        r = {'terms': [], 'index': {}}
        ex.memo['symstr'] = r
    return r


def sent(term):
    """marker string for a term.  Terms the path condition forces to be equal share one marker (canonical form), so that
    structural containers (dict, RecursiveDict) treat keys that are necessarily equal as the same key."""
    r = _reg()
    k = term.sexpr()
    if k not in r['index']:
        ex = core.CUR
        found = None
        for j, u in enumerate(r['terms']):
            if j in r.get('alias_of', {}):
                continue
            ex.solver.set('timeout', 300)
            try:
                if str(ex.solver.check(term != u)) == 'unsat':
                    found = j
                    break
            finally:
                ex.solver.set('timeout', ex.timeout_ms)
        if found is not None:
            r['index'][k] = found
        else:
            r['index'][k] = len(r['terms'])
            r['terms'].append(term)
    return SentStr('\x00%d\x00' % r['index'][k])


def lift(s):
    """python str with markers -> z3 String term"""
    if isinstance(s, z3.ExprRef):
        return s
    r = _reg()
    out = []
    for p in _MARK.split(str.__str__(s) if isinstance(s, str) else str(s)):
        if not p:
            continue
        if p[0] == '\x00':
            out.append(r['terms'][int(p.strip('\x00'))])
        else:
            out.append(z3.StringVal(p))
    if not out:
        return z3.StringVal('')
    return z3.Concat(*out) if len(out) > 1 else out[0]


def has_marker(s):
    return isinstance(s, str) and '\x00' in s


def _lower_term(t):
    d = t.decl().name() if z3.is_app(t) else ''
    if d in ('LOWER', 'int.to.str', 'str.from_int'):
        return t
    return LOWER(t)


class SentStr(str):
    """str carrying markers; lower() is applied to the embedded terms as well"""
    def lower(self):
        r = _reg()
        out = ''
        for p in _MARK.split(str.__str__(self)):
            if not p:
                continue
            if p[0] == '\x00':
                out += str.__str__(sent(_lower_term(r['terms'][int(p.strip('\x00'))])))
            else:
                out += p.lower()
        return SentStr(out)

    def __str__(self):
        return self

    def __add__(self, o):
        return SentStr(str.__add__(self, o))

    def __radd__(self, o):
        return SentStr(str.__add__(o, self))

    def format(self, *a, **k):
        return SentStr(str.format(self, *a, **k))


class SInt:
    """symbolic non-negative integer that renders as the string int.to.str(t)"""
    def __init__(self, i):
        self.i = i if isinstance(i, I) else I(z3.IntVal(int(i)))

    def __str__(self):
        return sent(z3.IntToStr(self.i.t))

    def __format__(self, spec):
        return str(self)

    def __repr__(self):
        return str.__str__(str(self))

    def __add__(self, o):
        return SInt(self.i + (o.i if isinstance(o, SInt) else o))
    __radd__ = __add__

    def __sub__(self, o):
        return SInt(self.i - (o.i if isinstance(o, SInt) else o))

    def _o(self, o):
        return o.i if isinstance(o, SInt) else o

    def __le__(self, o):
        return self.i <= self._o(o)

    def __lt__(self, o):
        return self.i < self._o(o)

    def __ge__(self, o):
        return self.i >= self._o(o)

    def __gt__(self, o):
        return self.i > self._o(o)

    def __int__(self):
        return self

    def __index__(self):
        raise HarnessError('SInt used as a concrete index')

    def __hash__(self):
        return hash(self.i.t.sexpr())

    def __eq__(self, o):
        return isinstance(o, SInt) and self.i.t.eq(o.i.t)


class SAtom:
    """string atom (element symbol, transition level): str() gives a marker string"""
    def __init__(self, term):
        self.t = term

    def __str__(self):
        return sent(self.t)

    def __format__(self, spec):
        return str(self)

    def lower(self):
        return sent(_lower_term(self.t))

    def __hash__(self):
        return hash(self.t.sexpr())

    def __eq__(self, o):
        return isinstance(o, SAtom) and self.t.eq(o.t)

    def __repr__(self):
        return 'SAtom(%s)' % self.t


class Tagged:
    """opaque array value (numpy stand-in): identity = tag; shape bookkeeping only"""
    def __init__(self, tag, shape):
        self.tag, self.shape = tag, tuple(shape)
        self.ndim = len(self.shape)

    def tolist(self):
        return Tagged(self.tag, self.shape)

    def __eq__(self, o):
        return isinstance(o, Tagged) and o.tag == self.tag and o.shape == self.shape

    def __hash__(self):
        return hash(self.tag)

    def __len__(self):
        return self.shape[0]

    def __repr__(self):
        return 'Tagged(%r,%r)' % (self.tag, self.shape)


class NP:
    float64 = 'f8'

    @staticmethod
    def array(x, dtype=None):
        if isinstance(x, Tagged):
            return Tagged(x.tag, x.shape)
        import numpy
        return numpy.array(x, dtype=float if dtype == 'f8' else dtype)


def str_eq(a, b):
    """equality of two (marker) strings: structural when identical, else decided by the solver (forks)"""
    sa = str.__str__(a) if isinstance(a, str) else a
    sb = str.__str__(b) if isinstance(b, str) else b
    if isinstance(sa, str) and isinstance(sb, str):
        if sa == sb:
            return True
        if '\x00' not in sa and '\x00' not in sb:
            return False
    if not isinstance(sa, str) or not isinstance(sb, str):
        return False
    return bool(B(lift(sa) == lift(sb)))


class SymDict(dict):
    """dict whose missing-key lookups fall back to solver-decided string equality with the existing keys"""
    def __getitem__(self, key):
        if dict.__contains__(self, key):
            return dict.__getitem__(self, key)
        if isinstance(key, str):
            for k in list(dict.keys(self)):
                if isinstance(k, str) and (has_marker(k) or has_marker(key)) and str_eq(k, key):
                    return dict.__getitem__(self, k)
        raise KeyError(key)


NONFINITE_TAGS = set()      # tags of opaque arrays that (on this path) contain a NaN / inf entry
_TRUNCATED = object()       # content of a file that was opened for writing and not (yet) written


def _tags(obj, out):
    if isinstance(obj, Tagged):
        out.add(obj.tag)
    elif isinstance(obj, dict):
        for v in obj.values():
            _tags(v, out)
    elif isinstance(obj, (list, tuple)):
        for v in obj:
            _tags(v, out)
    return out


class FileSystem:
    def __init__(self):
        self.files = []      # [path(str), content]
        self.writes = []     # log of written paths
        self.made_dirs = []

    def find(self, path):
        for k, (p, c) in enumerate(self.files):
            if str.__str__(p) == str.__str__(path):
                return k
        for k, (p, c) in enumerate(self.files):
            if str_eq(p, path):
                return k
        return None

    def open(self, path, mode='r', *a, **kw):
        fs = self

        class Handle:
            def __enter__(s):
                return s

            def __exit__(s, *e):
                return False
        h = Handle()
        h.path, h.mode = path, mode
        if 'r' in mode:
            k = fs.find(path)
            if k is None:
                raise FileNotFoundError(path)
            h.slot = k
        elif 'w' in mode:
            k = fs.find(path)
            if k is not None:
                fs.files[k][1] = _TRUNCATED       # open(..., 'w') truncates an existing file at once
        return h


def _jsonify(obj):
    """what json.dump would store: dict keys become strings, nested dicts become plain"""
    if isinstance(obj, dict):
        out = {}
        for k, v in obj.items():
            if isinstance(k, str):
                kk = k
            elif isinstance(k, (SInt, SAtom)):
                kk = str(k)
            elif isinstance(k, bool) or not isinstance(k, (int, float)):
                raise TypeError('keys must be str, int, float, bool or None, not %s' % type(k).__name__)
            else:
                kk = str(k)
            out[kk] = _jsonify(v)
        return out
    if isinstance(obj, (list, tuple)):
        return [_jsonify(v) for v in obj]
    return obj


def _load(obj):
    if isinstance(obj, dict):
        return SymDict((k, _load(v)) for k, v in obj.items())
    if isinstance(obj, list):
        return [_load(v) for v in obj]
    if isinstance(obj, Tagged):
        return Tagged(obj.tag, obj.shape)
    return obj


class Env:
    """os / json / open / np replacements bound to one FileSystem"""
    def __init__(self):
        self.fs = FileSystem()
        fs = self.fs

        class J:
            @staticmethod
            def load(f):
                if fs.files[f.slot][1] is _TRUNCATED:
                    raise ValueError('Expecting value: line 1 column 1 (char 0)')      # json.JSONDecodeError on an empty file
                return _load(fs.files[f.slot][1])

            @staticmethod
            def dump(content, f, **kw):
                data = _jsonify(content)
                if kw.get('allow_nan', True) is False and (_tags(data, set()) & NONFINITE_TAGS):
                    raise ValueError('Out of range float values are not JSON compliant')
                k = fs.find(f.path)
                fs.writes.append(f.path)
                if k is None:
                    fs.files.append([f.path, data])
                else:
                    fs.files[k][1] = data
        self.json = J
        self.os = types.SimpleNamespace(
            path=types.SimpleNamespace(join=lambda *a: SentStr(posixpath.join(*[str.__str__(x) for x in a])),
                                       dirname=lambda p: SentStr(posixpath.dirname(str.__str__(p))),
                                       isdir=lambda d: False, isfile=lambda d: False,
                                       expanduser=lambda p: p),
            makedirs=lambda d, exist_ok=False: fs.made_dirs.append(d))
        self.open = fs.open
        self.np = NP

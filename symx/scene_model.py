"""raysect scene graph by transcription (raysect/core/scenegraph/_nodebase.pyx, node.pyx, primitive.pyx): parent / transform setters,
root-transform propagation and the _modified() hook.  raysect calls `self._modified()` through Python attribute lookup (it is a `def`
method of _NodeBase), so a subclass method that Cython compiles as C-only (`cdef` in the .pxd) is NOT reached: `_py_visible` below
reproduces that lookup on translated classes, whose C-only methods carry the `_sx_cdef_` mark."""
from . import rs_model
from .core import HarnessError, is_sym

AffineMatrix3D = rs_model.AffineMatrix3D


def _inverse(m):
    """inverse of a rigid transform [R | t] (R orthonormal: identity for the symbolic translations used by the harnesses, a concrete rotation
    for raysect's rotate_x/y/z): [R^T | -R^T t]"""
    a = m.m
    for i in range(3):
        for j in range(3):
            if is_sym(a[i][j]):
                raise HarnessError('scene model: symbolic rotations are not supported as node transforms')
    rt_ = [[a[j][i] for j in range(3)] for i in range(3)]
    t = [a[0][3], a[1][3], a[2][3]]
    nt = [-(rt_[i][0] * t[0] + rt_[i][1] * t[1] + rt_[i][2] * t[2]) for i in range(3)]
    ident = all(rt_[i][j] == (1.0 if i == j else 0.0) for i in range(3) for j in range(3))
    if ident:
        nt = [-t[0], -t[1], -t[2]]
    return AffineMatrix3D([rt_[0] + [nt[0]], rt_[1] + [nt[1]], rt_[2] + [nt[2]], [0.0, 0.0, 0.0, 1.0]])


def rotate_x(deg):
    import math
    c, s_ = math.cos(math.radians(deg)), math.sin(math.radians(deg))
    return AffineMatrix3D([[1.0, 0.0, 0.0, 0.0], [0.0, c, -s_, 0.0], [0.0, s_, c, 0.0], [0.0, 0.0, 0.0, 1.0]])


if not hasattr(AffineMatrix3D, 'inverse') or 'not modelled' in (AffineMatrix3D.inverse.__doc__ or '') or True:
    AffineMatrix3D.inverse = _inverse


def _py_visible(obj, name):
    """the function Python attribute lookup finds for `name` on the compiled class: C-only (cdef) methods are invisible"""
    for klass in type(obj).__mro__:
        f = klass.__dict__.get(name)
        if f is not None and not getattr(f, '_sx_cdef_', False):
            return f
    raise AttributeError(name)


class _NodeBase:
    def __init__(self, name=None):
        self._name = name
        self._parent = None
        self.children = []
        self.root = self
        self._transform = AffineMatrix3D()
        self._root_transform = AffineMatrix3D()
        self._root_transform_inverse = AffineMatrix3D()
        self._track_modifications = True
        self.meta = {}

    def _check_parent(self, parent):
        if parent is self:
            raise ValueError("A node cannot be parented to itself or one of it's descendants.")
        for child in self.children:
            child._check_parent(parent)

    def _update(self):
        if self._parent is None:
            if self.root is not self:
                self.root._deregister(self)
                self.root = self
            self._root_transform = AffineMatrix3D()
            self._root_transform_inverse = AffineMatrix3D()
            if self._track_modifications:
                _py_visible(self, '_modified')(self)
        else:
            if self.root is not self._parent.root:
                self.root._deregister(self)
                self.root = self._parent.root
                self._parent.root._register(self)
            self._root_transform = self._parent._root_transform.mul(self._transform)
            self._root_transform_inverse = self._root_transform.inverse()
            if self._track_modifications:
                _py_visible(self, '_modified')(self)
        self.root._change(self, 0)
        for child in self.children:
            child._update()

    def _register(self, node):
        pass

    def _deregister(self, node):
        pass

    def _change(self, node, signal):
        pass

    def _modified(self):
        pass


class Node(_NodeBase):
    def __init__(self, parent=None, transform=None, name=None):
        _NodeBase.__init__(self, name)
        if transform is None:
            transform = AffineMatrix3D()
        self._track_modifications = False
        self._name = name
        self._transform = transform
        self.parent = parent
        self._track_modifications = True

    @property
    def parent(self):
        return self._parent

    @parent.setter
    def parent(self, value):
        if self._parent is value:
            return
        if value is None:
            self._parent.children.remove(self)
            self._parent = None
            self._update()
        else:
            if not isinstance(value, _NodeBase):
                raise TypeError("The specified parent is not a scene-graph node or None (unparented).")
            self._check_parent(value)
            if self._parent is None:
                self._parent = value
                self._parent.children.append(self)
                self._update()
            else:
                self._parent.children.remove(self)
                self._parent = value
                self._parent.children.append(self)
                self._update()

    @property
    def transform(self):
        return self._transform

    @transform.setter
    def transform(self, value):
        if value is None:
            raise TypeError('transform must not be None')
        self._transform = value
        self._update()

    @property
    def name(self):
        return self._name

    @name.setter
    def name(self, value):
        self._name = value

    def to(self, node):
        if self.root is node.root:
            return node._root_transform_inverse.mul(self._root_transform)
        raise ValueError("The target node must be in the same scene-graph.")

    def to_local(self):
        return self._root_transform_inverse

    def to_root(self):
        return self._root_transform


class World(_NodeBase):
    """root node (registration / change notifications are no-ops here)"""
    def __init__(self, name=None):
        _NodeBase.__init__(self, name)

    def to(self, node):
        if self.root is node.root:
            return node._root_transform_inverse.mul(self._root_transform)
        raise ValueError("The target node must be in the same scene-graph.")


class Material:
    """raysect's base Material: a compiled class without a __dict__ (assigning an unknown attribute raises AttributeError)"""
    __slots__ = ('primitives',)


class Primitive(Node):
    def __init__(self, parent=None, transform=None, material=None, name=None):
        Node.__init__(self, parent, transform, name)
        self.material = material if material is not None else Material()


class InhomogeneousVolumeEmitter(Material):
    __slots__ = ('__dict__',)

    def __init__(self, integrator=None):
        self.integrator = integrator


class VolumeIntegrator:
    pass


class NumericalIntegrator(VolumeIntegrator):
    def __init__(self, step=0.001, min_samples=5):
        self.step, self.min_samples = step, min_samples


class Box(Primitive):
    def __init__(self, lower=None, upper=None, parent=None, transform=None, material=None, name=None):
        Primitive.__init__(self, parent, transform, material, name)
        self.lower, self.upper = lower, upper


class Cylinder(Primitive):
    def __init__(self, radius=0.5, height=1.0, parent=None, transform=None, material=None, name=None):
        Primitive.__init__(self, parent, transform, material, name)
        self.radius, self.height = radius, height


class Cone(Primitive):
    def __init__(self, radius=0.5, height=1.0, parent=None, transform=None, material=None, name=None):
        Primitive.__init__(self, parent, transform, material, name)
        self.radius, self.height = radius, height


class Sphere(Primitive):
    def __init__(self, radius=0.5, parent=None, transform=None, material=None, name=None):
        Primitive.__init__(self, parent, transform, material, name)
        self.radius = radius


class Intersect(Primitive):
    def __init__(self, a=None, b=None, parent=None, transform=None, material=None, name=None):
        Primitive.__init__(self, parent, transform, material, name)
        self.primitive_a, self.primitive_b = a, b
        for p in (a, b):
            if p is not None:
                p.parent = self


class Union(Intersect):
    pass


class Subtract(Intersect):
    pass


STUBS = {'rotate_x': rotate_x, 'Node': Node, '_NodeBase': _NodeBase, 'World': World, 'Primitive': Primitive, 'Material': Material,
         'InhomogeneousVolumeEmitter': InhomogeneousVolumeEmitter, 'VolumeIntegrator': VolumeIntegrator, 'NumericalIntegrator': NumericalIntegrator,
         'Box': Box, 'Cylinder': Cylinder, 'Cone': Cone, 'Sphere': Sphere, 'Intersect': Intersect, 'Union': Union, 'Subtract': Subtract}

"""pyx2py: Cython parse tree -> Python source text (regenerated from /repo on every run).

Keeps control flow, expressions, names; drops C type annotations while preserving the C semantics
that can change a result (int truncation on typed assignment / casts, cdef attribute defaults,
cdef-method invisibility marker, cdivision mode of `%`).  Unsupported constructs raise
UnsupportedConstruct (-> harness error, never a verdict).
"""
import os
from Cython.Compiler.Main import Context, CompilationOptions, default_options
from Cython.Compiler.Scanning import FileSourceDescriptor
from Cython.Compiler import Nodes as N, ExprNodes as E


class UnsupportedConstruct(Exception):
    pass


INT_TYPES = {'int', 'long', 'short', 'char', 'Py_ssize_t', 'size_t', 'ssize_t', 'unsigned', 'npy_intp', 'uint8_t',
             'int32_t', 'int64_t', 'uint32_t', 'uint64_t', 'int8_t', 'int16_t', 'uint16_t', 'longlong'}
FLOAT_TYPES = {'double', 'float', 'longdouble', 'float64_t', 'float32_t'}
BOOL_TYPES = {'bint'}

_ctx = None


def parse(path, root='/repo/'):
    ctx = Context.from_options(CompilationOptions(default_options))
    src = FileSourceDescriptor(path, path)
    rel = os.path.relpath(path, root)
    mod = rel.rsplit('.', 1)[0].replace('/', '.')
    if mod.endswith('.__init__'):
        mod = mod[:-9]
    from Cython.Compiler.Symtab import ModuleScope
    scope = ModuleScope(mod, parent_module=None, context=ctx)
    return ctx.parse(src, scope, pxd=path.endswith('.pxd'), full_module_name=mod)


def _tname(bt):
    """name of a C base type node ('int', 'double', 'Vector3D', 'memview', None for untyped)"""
    if bt is None:
        return None
    k = type(bt).__name__
    if k == 'CSimpleBaseTypeNode':
        if bt.name is None:
            return None
        if bt.is_basic_c_type:
            if bt.name in ('int', 'long', 'short', 'char') or bt.longness or bt.signed != 1:
                return 'int' if bt.name in ('int', 'long', 'short', 'char') else bt.name
            return bt.name
        return bt.name
    if k == 'MemoryViewSliceTypeNode':
        return 'memview'
    if k == 'TemplatedTypeNode':
        return 'object'
    if k == 'CConstOrVolatileTypeNode' or k == 'CConstTypeNode':
        return _tname(bt.base_type)
    if k == 'CNestedBaseTypeNode':
        return bt.name
    return 'object'


def _kind(t):
    if t in INT_TYPES:
        return 'int'
    if t in FLOAT_TYPES:
        return 'double'
    if t in BOOL_TYPES:
        return 'bint'
    return None


def _decl_name(d):
    """(name, is_array, is_ptr, is_func) from a declarator chain"""
    arr = ptr = func = False
    dims = []
    while True:
        k = type(d).__name__
        if k == 'CNameDeclaratorNode':
            return d.name, arr, ptr, func, dims, d
        if k == 'CArrayDeclaratorNode':
            arr = True
            dims.insert(0, d.dimension)
            d = d.base
        elif k == 'CPtrDeclaratorNode' or k == 'CReferenceDeclaratorNode':
            ptr = True
            d = d.base
        elif k == 'CFuncDeclaratorNode':
            func = True
            d = d.base
        else:
            raise UnsupportedConstruct('declarator ' + k)


class ClassInfo:
    def __init__(self, name):
        self.name = name
        self.attrs = {}      # attr -> (ctype, visibility)
        self.cmethods = {}   # name -> overridable(bool)


class ModuleDecls:
    """declarations harvested from a .pxd"""
    def __init__(self):
        self.classes = {}
        self.prelude = []    # python source lines (imports + inline functions)


class Tr:
    def __init__(self, decls=None, pxd=False):
        self.out = []
        self.scopes = [{}]          # local name -> ctype
        self.cdiv = [False]
        self.decls = decls or ModuleDecls()
        self.pxd = pxd
        self.cls = None
        self.lambda_n = 0

    # ------------------------------------------------------------------ utils
    def emit(self, ind, s, node=None):
        ln = node.pos[1] if node is not None and getattr(node, 'pos', None) else 0
        self.out.append('    ' * ind + s + ('   #L%d' % ln if ln else ''))

    def unsupported(self, what, n):
        pos = getattr(n, 'pos', None)
        raise UnsupportedConstruct('%s at %s:%s' % (what, pos[0].filename if pos else '?', pos[1] if pos else '?'))

    def ctype_of_name(self, name):
        for sc in reversed(self.scopes):
            if name in sc:
                return sc[name]
        return None

    def is_int_expr(self, n):
        """statically certainly a C/Python int"""
        k = type(n).__name__
        if k == 'IntNode':
            return True
        if k == 'NameNode':
            return _kind(self.ctype_of_name(n.name)) == 'int'
        if k in ('AddNode', 'SubNode', 'MulNode'):
            return self.is_int_expr(n.operand1) and self.is_int_expr(n.operand2)
        if k == 'UnaryMinusNode':
            return self.is_int_expr(n.operand)
        if k == 'TypecastNode':
            return _kind(_tname(n.base_type)) == 'int'
        if k == 'AttributeNode' and type(n.obj).__name__ == 'NameNode' and n.obj.name == 'self' and self.cls:
            a = self.decls.classes.get(self.cls)
            if a and n.attribute in a.attrs:
                return _kind(a.attrs[n.attribute][0]) == 'int'
        return False

    # ------------------------------------------------------------------ expressions
    def x(self, n):
        k = type(n).__name__
        m = getattr(self, 'x_' + k, None)
        if m is None:
            self.unsupported('expr ' + k, n)
        return m(n)

    def x_NameNode(s, n):
        return n.name

    def x_IntNode(s, n):
        v = n.value
        v = v.rstrip('UuLl') if not v.lower().startswith('0x') else v
        return v

    def x_FloatNode(s, n):
        return '%s' % n.value if n.value not in ('inf', 'nan') else 'float(%r)' % n.value

    def x_BoolNode(s, n):
        return repr(bool(n.value))

    def x_NoneNode(s, n):
        return 'None'

    def x_EllipsisNode(s, n):
        return '...'

    def x_UnicodeNode(s, n):
        return repr(str(n.value))
    x_IdentifierStringNode = x_UnicodeNode
    x_StringNode = x_UnicodeNode

    def x_BytesNode(s, n):
        return repr(bytes(n.value, 'latin1') if isinstance(n.value, str) else bytes(n.value))

    def x_JoinedStrNode(s, n):
        parts = ', '.join(s.x(v) for v in n.values)
        return "''.join([%s])" % parts

    def x_FormattedValueNode(s, n):
        conv = {None: '', 's': '!s', 'r': '!r', 'a': '!a'}.get(n.conversion_char, '')
        spec = s.x(n.format_spec) if n.format_spec is not None else "''"
        val = s.x(n.value)
        if conv == '!s':
            val = 'str(%s)' % val
        elif conv == '!r':
            val = 'repr(%s)' % val
        return 'format(%s, %s)' % (val, spec)

    def x_AttributeNode(s, n):
        if n.attribute == 'base':
            return '_sx_.mvbase(%s)' % s.x(n.obj)     # memoryview.base -> the array the view was taken from
        return '%s.%s' % (s.x(n.obj), n.attribute)

    def binop(s, n):
        return '(%s %s %s)' % (s.x(n.operand1), n.operator, s.x(n.operand2))
    x_AddNode = x_SubNode = x_MulNode = x_IntBinopNode = x_MatMultNode = binop

    def x_DivNode(s, n):
        if n.operator == '/' and s.cdiv and s.cdiv[-1]:
            # cdivision(True): no ZeroDivisionError; concrete operands follow C (inf / nan), symbolic ones the division policy of the run
            return '_sx_.cdiv(%s, %s)' % (s.x(n.operand1), s.x(n.operand2))
        return s.binop(n)
    x_BitwiseOrNode = x_BitwiseAndNode = x_BitwiseXorNode = binop

    def x_PowNode(s, n):
        return '_sx_.pow(%s, %s)' % (s.x(n.operand1), s.x(n.operand2))

    def x_ModNode(s, n):
        # string formatting keeps python semantics
        if type(n.operand1).__name__ in ('UnicodeNode', 'StringNode', 'BytesNode', 'IdentifierStringNode'):
            return '(%s %% %s)' % (s.x(n.operand1), s.x(n.operand2))
        return '_sx_.mod(%s, %s, %r)' % (s.x(n.operand1), s.x(n.operand2), s.cdiv[-1])

    def x_UnaryMinusNode(s, n):
        return '(-%s)' % s.x(n.operand)

    def x_UnaryPlusNode(s, n):
        return '(+%s)' % s.x(n.operand)

    def x_TildeNode(s, n):
        return '(~%s)' % s.x(n.operand)

    def x_NotNode(s, n):
        return '(not %s)' % s.x(n.operand)

    def x_BoolBinopNode(s, n):
        return '(%s %s %s)' % (s.x(n.operand1), n.operator, s.x(n.operand2))

    def x_PrimaryCmpNode(s, n):
        r = '%s %s %s' % (s.x(n.operand1), n.operator.replace('_', ' '), s.x(n.operand2))
        c = n.cascade
        while c is not None:
            r += ' %s %s' % (c.operator.replace('_', ' '), s.x(c.operand2))
            c = c.cascade
        return '(' + r + ')'

    def x_SimpleCallNode(s, n):
        return '%s(%s)' % (s.x(n.function), ', '.join(s.x(a) for a in n.args))

    def x_GeneralCallNode(s, n):
        pa = n.positional_args
        if isinstance(pa, E.TupleNode):
            pos = [s.x(a) for a in pa.args]
        elif isinstance(pa, E.AsTupleNode):
            pos = ['*' + s.x(pa.arg)]
        else:
            pos = ['*' + s.x(pa)]
        kw = []
        ka = n.keyword_args
        if ka is not None:
            kw = s.kwargs(ka)
        return '%s(%s)' % (s.x(n.function), ', '.join(pos + kw))

    def kwargs(s, ka):
        if isinstance(ka, E.DictNode):
            return ['%s=%s' % (it.key.value, s.x(it.value)) for it in ka.key_value_pairs]
        if isinstance(ka, E.MergedDictNode):
            r = []
            for a in ka.keyword_args:
                r += s.kwargs(a)
            return r
        return ['**' + s.x(ka)]

    def x_MergedDictNode(s, n):
        return '{' + ', '.join('**' + s.x(a) for a in n.keyword_args) + '}'

    def x_AsTupleNode(s, n):
        return 'tuple(%s)' % s.x(n.arg)

    def x_TupleNode(s, n):
        return '(' + ''.join(s.x(a) + ', ' for a in n.args) + ')'

    def x_ListNode(s, n):
        return '[' + ', '.join(s.x(a) for a in n.args) + ']'

    def x_SetNode(s, n):
        return '{' + ', '.join(s.x(a) for a in n.args) + '}'

    def x_StarredUnpackingNode(s, n):
        return '*' + s.x(n.target)

    def x_DictNode(s, n):
        return '{' + ', '.join('%s: %s' % (s.x(i.key), s.x(i.value)) for i in n.key_value_pairs) + '}'

    def x_IndexNode(s, n):
        if isinstance(n.index, E.TupleNode):
            idx = ', '.join(s.x(a) for a in n.index.args)
            if len(n.index.args) == 1:
                idx += ','
        else:
            idx = s.x(n.index)
        return '%s[%s]' % (s.x(n.base), idx)

    def x_SliceNode(s, n):
        return 'slice(%s, %s, %s)' % tuple('None' if isinstance(v, E.NoneNode) else s.x(v) for v in (n.start, n.stop, n.step))

    def x_SliceIndexNode(s, n):
        return '%s[%s:%s]' % (s.x(n.base), '' if n.start is None else s.x(n.start), '' if n.stop is None else s.x(n.stop))

    def x_TypecastNode(s, n):
        t = _tname(n.base_type)
        k = _kind(t)
        d = n.declarator
        is_ptr = d is not None and type(d).__name__ == 'CPtrDeclaratorNode'
        if k == 'int' and not is_ptr:
            return '_sx_.toint(%s)' % s.x(n.operand)
        if k == 'double' and not is_ptr:
            return '_sx_.todouble(%s)' % s.x(n.operand)
        return s.x(n.operand)

    def x_CondExprNode(s, n):
        return '(%s if %s else %s)' % (s.x(n.true_val), s.x(getattr(n, "condition", None) or n.test), s.x(n.false_val))

    def x_AmpersandNode(s, n):
        return s.x(n.operand)

    def x_LambdaNode(s, n):
        args = s.args(n.args, coerce=None)
        if n.star_arg is not None:
            args.append('*' + s.argname(n.star_arg))
        if n.starstar_arg is not None:
            args.append('**' + s.argname(n.starstar_arg))
        return '(lambda %s: %s)' % (', '.join(args), s.x(n.result_expr))

    def x_ComprehensionNode(s, n):
        # loop is a ForInStatNode chain ending in ComprehensionAppendNode
        parts = []
        node = n.loop
        expr = None
        while True:
            k = type(node).__name__
            if k == 'ForInStatNode':
                parts.append('for %s in %s' % (s.x(node.target), s.x(node.iterator.sequence)))
                node = node.body
            elif k == 'IfStatNode':
                parts.append('if %s' % s.x(node.if_clauses[0].condition))
                node = node.if_clauses[0].body
            elif k == 'ComprehensionAppendNode':
                expr = s.x(node.expr)
                break
            elif k == 'DictComprehensionAppendNode':
                expr = '%s: %s' % (s.x(node.key_expr), s.x(node.value_expr))
                break
            elif k == 'StatListNode' and len(node.stats) == 1:
                node = node.stats[0]
            elif k == 'ExprStatNode':
                node = node.expr
            else:
                s.unsupported('comprehension part ' + k, node)
        tn = type(n.type).__name__ if getattr(n, 'type', None) is not None else ''
        tname = getattr(n.type, 'name', '') if getattr(n, 'type', None) is not None else 'list'
        if tname == 'set':
            return '{%s %s}' % (expr, ' '.join(parts))
        if tname == 'dict':
            return '{%s %s}' % (expr, ' '.join(parts))
        return '[%s %s]' % (expr, ' '.join(parts))

    def x_GeneratorExpressionNode(s, n):
        # generator expression: def_node.gbody.body holds loop with YieldExprNode
        node = n.loop if hasattr(n, 'loop') and n.loop is not None else n.def_node.gbody.body
        parts = []
        expr = None
        while True:
            k = type(node).__name__
            if k == 'ForInStatNode':
                parts.append('for %s in %s' % (s.x(node.target), s.x(node.iterator.sequence)))
                node = node.body
            elif k == 'IfStatNode':
                parts.append('if %s' % s.x(node.if_clauses[0].condition))
                node = node.if_clauses[0].body
            elif k == 'StatListNode' and len(node.stats) == 1:
                node = node.stats[0]
            elif k == 'ExprStatNode':
                node = node.expr
            elif k == 'YieldExprNode':
                expr = s.x(node.arg)
                break
            else:
                s.unsupported('genexpr part ' + k, node)
        return '(%s %s)' % (expr, ' '.join(parts))

    def x_ImportNode(s, n):
        return '__import__(%r)' % str(n.module_name.value)

    # ------------------------------------------------------------------ statements
    def st(self, n, ind):
        k = type(n).__name__
        m = getattr(self, 's_' + k, None)
        if m is None:
            self.unsupported('stmt ' + k, n)
        m(n, ind)

    def body(self, n, ind):
        before = len(self.out)
        self.st(n, ind)
        if len(self.out) == before:
            self.emit(ind, 'pass')

    def s_StatListNode(s, n, ind):
        for c in n.stats:
            s.st(c, ind)

    def s_CompilerDirectivesNode(s, n, ind):
        s.st(n.body, ind)

    def s_FromCImportStatNode(s, n, ind):
        names = []
        for it in n.imported_names:
            nm, asn = it[1], it[2]
            names.append((nm, asn or nm))
        lvl = n.relative_level or 0
        if len(names) == 1 and names[0][0] == '*':
            s.emit(ind, 'from %s%s import *' % ('.' * lvl, n.module_name), n)
            return
        s.emit(ind, '_sx_lazy_(globals(), %r, %d, %r)' % (str(n.module_name), lvl, names), n)

    def s_CImportStatNode(s, n, ind):
        if n.as_name:
            s.emit(ind, 'import %s as %s' % (n.module_name, n.as_name), n)
        else:
            s.emit(ind, 'import %s' % n.module_name, n)

    def s_FromImportStatNode(s, n, ind):
        mod = str(n.module.module_name.value)
        lvl = getattr(n.module, 'level', 0) or 0
        if lvl < 0:
            lvl = 0
        if n.import_star:
            s.emit(ind, 'from %s%s import *' % ('.' * lvl, mod), n)
            return
        if ind > 0:
            items = ', '.join('%s as %s' % (nm, tgt.name) if tgt.name != nm else nm for nm, tgt in n.items)
            s.emit(ind, 'from %s%s import %s' % ('.' * lvl, mod, items), n)
            return
        s.emit(ind, '_sx_lazy_(globals(), %r, %d, %r)' % (mod, lvl, [(nm, tgt.name) for nm, tgt in n.items]), n)

    def s_CVarDefNode(s, n, ind):
        t = _tname(n.base_type)
        for d in n.declarators:
            name, arr, ptr, func, dims, nd = _decl_name(d)
            if func:
                # C method / function declaration (pxd): record cdef methods
                if s.cls is not None:
                    s.decls.classes.setdefault(s.cls, ClassInfo(s.cls)).cmethods[name] = bool(getattr(n, 'overridable', False))
                continue
            if s.cls is not None and len(s.scopes) == s.cls_depth:
                # attribute declaration of a cdef class
                ci = s.decls.classes.setdefault(s.cls, ClassInfo(s.cls))
                ct = 'array' if arr else ('ptr' if ptr else t)
                if arr and dims and dims[0] is not None:
                    try:
                        ct = 'array:%d' % int(s.x(dims[0]))
                    except ValueError:
                        pass
                ci.attrs[name] = (ct, n.visibility)
                continue
            s.scopes[-1][name] = 'array' if arr else ('ptr' if ptr else t)
            if arr:
                dim = ' * '.join('[0.0] * (%s)' % s.x(x) for x in dims[-1:]) if dims and dims[-1] is not None else '[]'
                if len(dims) == 2:
                    dim = '[[0.0] * (%s) for _ in range(%s)]' % (s.x(dims[1]), s.x(dims[0]))
                s.emit(ind, '%s = %s' % (name, dim), n)
            default = getattr(nd, 'default', None)
            if default is not None:
                s.emit(ind, '%s = %s' % (name, s.coerced(t, default)), n)

    def coerced(s, t, rhs_node, rhs_src=None):
        src = rhs_src if rhs_src is not None else s.x(rhs_node)
        k = _kind(t)
        if k == 'int' and not (rhs_node is not None and s.is_int_expr(rhs_node)):
            return '_sx_.toint(%s)' % src
        return src

    def lhs_ctype(s, lhs):
        k = type(lhs).__name__
        if k == 'NameNode':
            return s.ctype_of_name(lhs.name)
        return None

    def s_SingleAssignmentNode(s, n, ind):
        if isinstance(n.rhs, E.ImportNode):
            # import a.b.c [as x]
            mod = str(n.rhs.module_name.value)
            tgt = s.x(n.lhs)
            if getattr(n.rhs, 'get_top_level_module', False) or tgt == mod.split('.')[0]:
                s.emit(ind, 'import %s' % mod, n)
            else:
                s.emit(ind, 'import %s as %s' % (mod, tgt), n)
            return
        lhs = s.x(n.lhs)
        t = s.lhs_ctype(n.lhs)
        s.emit(ind, '%s = %s' % (lhs, s.coerced(t, n.rhs)), n)

    def s_CascadedAssignmentNode(s, n, ind):
        s.emit(ind, '%s = %s' % (' = '.join(s.x(l) for l in n.lhs_list), s.x(n.rhs)), n)

    def s_ParallelAssignmentNode(s, n, ind):
        for st_ in n.stats:
            s.st(st_, ind)

    def s_InPlaceAssignmentNode(s, n, ind):
        lhs = s.x(n.lhs)
        op = n.operator
        if op == '%':
            s.emit(ind, '%s = _sx_.mod(%s, %s, %r)' % (lhs, lhs, s.x(n.rhs), s.cdiv[-1]), n)
            return
        if op == '**':
            s.emit(ind, '%s = _sx_.pow(%s, %s)' % (lhs, lhs, s.x(n.rhs)), n)
            return
        t = s.lhs_ctype(n.lhs)
        if _kind(t) == 'int' and not s.is_int_expr(n.rhs):
            s.emit(ind, '%s = _sx_.toint(%s %s %s)' % (lhs, lhs, op, s.x(n.rhs)), n)
            return
        s.emit(ind, '%s %s= %s' % (lhs, op, s.x(n.rhs)), n)

    def s_ExprStatNode(s, n, ind):
        if isinstance(n.expr, E.YieldExprNode):
            s.emit(ind, 'yield %s' % (s.x(n.expr.arg) if n.expr.arg is not None else ''), n)
            return
        s.emit(ind, s.x(n.expr), n)

    def x_YieldExprNode(s, n):
        return '(yield %s)' % (s.x(n.arg) if n.arg is not None else '')

    def s_ReturnStatNode(s, n, ind):
        if n.value is not None and getattr(s, 'ret_double', False) and type(n.value).__name__ in ('BoolBinopNode', 'PrimaryCmpNode', 'NotNode', 'CascadedCmpNode'):
            # C coerces the truth value to the declared double return type (1.0 / 0.0)
            s.emit(ind, 'return _sx_.todouble(_sx_.truth(%s))' % s.x(n.value), n)
            return
        s.emit(ind, 'return ' + (s.x(n.value) if n.value is not None else ''), n)

    def s_PassStatNode(s, n, ind):
        s.emit(ind, 'pass')

    def s_BreakStatNode(s, n, ind):
        s.emit(ind, 'break', n)

    def s_ContinueStatNode(s, n, ind):
        s.emit(ind, 'continue', n)

    def s_RaiseStatNode(s, n, ind):
        r = 'raise'
        if n.exc_type is not None:
            r += ' ' + s.x(n.exc_type)
            if n.exc_value is not None:
                r = 'raise %s(%s)' % (s.x(n.exc_type), s.x(n.exc_value))
            if getattr(n, 'cause', None) is not None:
                r += ' from ' + s.x(n.cause)
        s.emit(ind, r, n)

    def s_ReraiseStatNode(s, n, ind):
        s.emit(ind, 'raise', n)

    def s_AssertStatNode(s, n, ind):
        cond = getattr(n, 'condition', None) or getattr(n, 'cond', None)
        s.emit(ind, 'assert %s' % s.x(cond), n)

    def s_DelStatNode(s, n, ind):
        s.emit(ind, 'del ' + ', '.join(s.x(a) for a in n.args), n)

    def s_GlobalNode(s, n, ind):
        s.emit(ind, 'global ' + ', '.join(n.names), n)

    def s_NonlocalNode(s, n, ind):
        s.emit(ind, 'nonlocal ' + ', '.join(n.names), n)

    def s_PrintStatNode(s, n, ind):
        s.emit(ind, 'print(%s)' % ', '.join(s.x(a) for a in n.arg_tuple.args), n)

    def s_IfStatNode(s, n, ind):
        for i, c in enumerate(n.if_clauses):
            s.emit(ind, ('if ' if i == 0 else 'elif ') + s.x(c.condition) + ':', c)
            s.body(c.body, ind + 1)
        if n.else_clause is not None:
            s.emit(ind, 'else:')
            s.body(n.else_clause, ind + 1)

    def s_WhileStatNode(s, n, ind):
        s.emit(ind, 'while %s:' % s.x(n.condition), n)
        s.body(n.body, ind + 1)
        if n.else_clause is not None:
            s.emit(ind, 'else:')
            s.body(n.else_clause, ind + 1)

    def s_ForInStatNode(s, n, ind):
        s.emit(ind, 'for %s in %s:' % (s.x(n.target), s.x(n.iterator.sequence)), n)
        s.body(n.body, ind + 1)
        if n.else_clause is not None:
            s.emit(ind, 'else:')
            s.body(n.else_clause, ind + 1)

    def s_ForFromStatNode(s, n, ind):
        tgt = s.x(n.target)
        lo = s.x(n.bound1)
        hi = s.x(n.bound2)
        if n.relation1 == '<':
            lo = '(%s) + 1' % lo
        if n.relation2 == '<=':
            hi = '(%s) + 1' % hi
        if n.relation1 not in ('<', '<=') or n.step is not None:
            s.unsupported('for-from form', n)
        s.emit(ind, 'for %s in range(%s, %s):' % (tgt, lo, hi), n)
        s.body(n.body, ind + 1)

    def s_TryExceptStatNode(s, n, ind):
        s.emit(ind, 'try:')
        s.body(n.body, ind + 1)
        for c in n.except_clauses:
            pat = ', '.join(s.x(p) for p in c.pattern) if c.pattern else ''
            tgt = ' as %s' % s.x(c.target) if c.target is not None else ''
            s.emit(ind, ('except (%s)%s:' % (pat, tgt)) if pat else 'except:', c)
            s.body(c.body, ind + 1)
        if n.else_clause is not None:
            s.emit(ind, 'else:')
            s.body(n.else_clause, ind + 1)

    def s_TryFinallyStatNode(s, n, ind):
        if isinstance(n.body, N.TryExceptStatNode):
            s.st(n.body, ind)
        else:
            s.emit(ind, 'try:')
            s.body(n.body, ind + 1)
        s.emit(ind, 'finally:')
        s.body(n.finally_clause, ind + 1)

    def s_WithStatNode(s, n, ind):
        m = n.manager
        src = None
        if isinstance(m, E.SimpleCallNode) and isinstance(m.function, E.AttributeNode) \
                and isinstance(m.function.obj, E.NameNode) and m.function.obj.name == 'cython':
            if m.function.attribute == 'cdivision':
                s.cdiv.append(bool(m.args[0].value))
                s.body(n.body, ind)
                s.cdiv.pop()
                return
            s.body(n.body, ind)
            return
        tgt = ' as %s' % s.x(n.target) if n.target is not None else ''
        s.emit(ind, 'with %s%s:' % (s.x(m), tgt), n)
        s.body(n.body, ind + 1)

    def s_GILStatNode(s, n, ind):
        s.body(n.body, ind)

    def s_CDefExternNode(s, n, ind):
        pass

    def s_CTypeDefNode(s, n, ind):
        pass

    def s_CEnumDefNode(s, n, ind):
        for i, it in enumerate(n.items):
            s.emit(ind, '%s = %s' % (it.name, s.x(it.value) if it.value is not None else i), n)

    def s_CStructOrUnionDefNode(s, n, ind):
        pass

    # ------------------------------------------------------------------ functions and classes
    def argname(s, a):
        d = a.declarator
        name, *_ = _decl_name(d)
        if name:
            return name
        return a.base_type.name

    def args(s, arglist, coerce):
        """returns list of parameter sources; appends int-coercion statements to `coerce` (list) if given"""
        res = []
        seen_kwonly = False
        for a in arglist:
            name, arr, ptr, func, dims, nd = _decl_name(a.declarator)
            if name:
                t = 'ptr' if (ptr or arr) else _tname(a.base_type)
            else:
                name = a.base_type.name
                t = None
            s.scopes[-1][name] = t
            if getattr(a, 'kw_only', False) and not seen_kwonly:
                seen_kwonly = True
                if '*' not in ''.join(res):
                    res.append('*')
            res.append(name + ('=' + s.x(a.default) if a.default is not None else ''))
            if coerce is not None:
                if _kind(t) == 'int':
                    coerce.append('%s = _sx_.toint(%s)' % (name, name))
                nn = getattr(a, 'not_none', False)
                if nn:
                    coerce.append('_sx_.notnone(%s, %r)' % (name, name))
        return res

    def decorators(s, n, ind):
        cd = None
        for d in (n.decorators or []):
            dn = d.decorator
            src = s.x(dn)
            if src.startswith('cython.'):
                if src.startswith('cython.cdivision'):
                    cd = 'True' in src
                continue
            s.emit(ind, '@' + src, d)
        return cd

    def funcdef(s, name, arglist, star, starstar, body, ind, node, is_cdef=False, overridable=False, decorators_of=None):
        s.scopes.append({})
        cd = s.decorators(decorators_of, ind) if decorators_of is not None else None
        s.cdiv.append(s.cdiv[-1] if cd is None else cd)
        co = []
        a = s.args(arglist, co)
        if star is not None:
            if any(x == '*' for x in a):
                a[a.index('*')] = '*' + s.argname(star)
            else:
                # star arg goes before kw-only args; Cython keeps them in arglist order
                a.append('*' + s.argname(star))
        if starstar is not None:
            a.append('**' + s.argname(starstar))
        if is_cdef and not overridable and s.cls is not None:
            s.emit(ind, '@_sx_.cdef_method')
        s.emit(ind, 'def %s(%s):' % (name, ', '.join(a)), node)
        before = len(s.out)
        for c in co:
            s.emit(ind + 1, c)
        saved_cls = s.cls
        s.st(body, ind + 1)
        if len(s.out) == before:
            s.emit(ind + 1, 'pass')
        s.cdiv.pop()
        s.scopes.pop()

    def s_DefNode(s, n, ind):
        # kw-only handling: Cython stores num_kwonly_args
        arglist = n.args
        nk = getattr(n, 'num_kwonly_args', 0)
        if nk:
            for a in arglist[len(arglist) - nk:]:
                a.kw_only = True
        s.funcdef(n.name, arglist, n.star_arg, n.starstar_arg, n.body, ind, n, decorators_of=n)

    def s_CFuncDefNode(s, n, ind):
        d = n.declarator
        while type(d).__name__ != 'CFuncDeclaratorNode':
            d = d.base
        name = d.base.name
        saved = getattr(s, 'ret_double', False)
        bt = n.base_type
        s.ret_double = getattr(bt, 'name', None) in ('double', 'float') and type(n.declarator).__name__ == 'CFuncDeclaratorNode'
        try:
            s.funcdef(name, d.args, None, None, n.body, ind, n, is_cdef=True, overridable=bool(n.overridable), decorators_of=n)
        finally:
            s.ret_double = saved

    def names_in(s, node, acc):
        """names referenced by an expression tree (used to pre-resolve lazy imports needed inside class bodies)"""
        if node is None:
            return
        if isinstance(node, E.NameNode):
            acc.add(node.name)
        for attr in getattr(node, 'child_attrs', None) or []:
            c = getattr(node, attr, None)
            if c is None:
                continue
            for x_ in (c if isinstance(c, list) else [c]):
                if hasattr(x_, 'child_attrs'):
                    s.names_in(x_, acc)

    def class_level_names(s, body):
        acc = set()
        stats = body.stats if isinstance(body, N.StatListNode) else [body]
        for st_ in stats:
            if isinstance(st_, N.DefNode):
                for a in st_.args:
                    s.names_in(a.default, acc)
                for d in (st_.decorators or []):
                    s.names_in(d.decorator, acc)
            elif isinstance(st_, N.CFuncDefNode):
                d = st_.declarator
                while type(d).__name__ != 'CFuncDeclaratorNode':
                    d = d.base
                for a in d.args:
                    s.names_in(a.default, acc)
            elif isinstance(st_, (N.SingleAssignmentNode,)):
                s.names_in(st_.rhs, acc)
            elif isinstance(st_, N.StatListNode):
                acc |= s.class_level_names(st_)
        return acc

    def s_CClassDefNode(s, n, ind):
        if n.body is None:
            return  # forward declaration
        pre = sorted(s.class_level_names(n.body) - {'self', 'True', 'False', 'None'})
        if pre:
            s.emit(ind, '_sx_touch_(globals(), %r)' % pre)
        bases = ', '.join(s.x(b) for b in n.bases.args) if n.bases is not None and n.bases.args else ''
        for d in (n.decorators or []):
            src = s.x(d.decorator)
            if not src.startswith('cython.'):
                s.emit(ind, '@' + src, d)
        s.emit(ind, 'class %s(%s):' % (n.class_name, bases), n)
        saved = (s.cls, getattr(s, 'cls_depth', None))
        s.cls = n.class_name
        s.scopes.append({})
        s.cls_depth = len(s.scopes)
        mark = len(s.out)
        s.emit(ind + 1, '_sx_cdef_class_ = True')
        # first pass to harvest attribute declarations in body (so defaults can be emitted first)
        s.st(n.body, ind + 1)
        ci = s.decls.classes.get(n.class_name)
        defaults = []
        if ci:
            for an, (ct, vis) in ci.attrs.items():
                if an == '__weakref__':
                    continue
                k = _kind(ct)
                if k == 'int':
                    defaults.append('    ' * (ind + 1) + '%s = _sx_.IntAttr(%r)' % (an, an))
                elif k == 'double':
                    defaults.append('    ' * (ind + 1) + '%s = 0.0' % an)
                elif k == 'bint':
                    defaults.append('    ' * (ind + 1) + '%s = False' % an)
                elif ct and ct.startswith('array:'):
                    defaults.append('    ' * (ind + 1) + '%s = _sx_.ArrAttr(%r, %s)' % (an, an, ct[6:]))
                elif ct in ('array', 'ptr'):
                    defaults.append('    ' * (ind + 1) + '%s = None' % an)
                else:
                    defaults.append('    ' * (ind + 1) + '%s = None' % an)
            defaults.append('    ' * (ind + 1) + '_sx_cattrs_ = %r' % {a: v[0] for a, v in ci.attrs.items()})
        s.out[mark + 1:mark + 1] = defaults
        if any(l.lstrip().startswith('def __richcmp__(') for l in s.out[mark:]):
            for nm, op in (('__lt__', 0), ('__le__', 1), ('__eq__', 2), ('__ne__', 3), ('__gt__', 4), ('__ge__', 5)):
                s.emit(ind + 1, 'def %s(self, other): return self.__richcmp__(other, %d)' % (nm, op))
        s.scopes.pop()
        s.cls, s.cls_depth = saved

    def s_PyClassDefNode(s, n, ind):
        bases = ''
        if n.bases is not None and getattr(n.bases, 'args', None):
            bases = ', '.join(s.x(b) for b in n.bases.args)
        for d in (n.decorators or []):
            s.emit(ind, '@' + s.x(d.decorator), d)
        s.emit(ind, 'class %s(%s):' % (n.name, bases), n)
        saved = (s.cls, getattr(s, 'cls_depth', None))
        s.cls = None
        s.scopes.append({})
        s.body(n.body, ind + 1)
        s.scopes.pop()
        s.cls, s.cls_depth = saved

    def s_PropertyNode(s, n, ind):
        # old-style `property name:` block
        s.unsupported('old-style property block', n)

    # ------------------------------------------------------------------ module
    def module(s, tree):
        s.st(tree.body, 0)
        return '\n'.join(s.out) + '\n'


def translate_pxd(path, root='/repo/'):
    """returns ModuleDecls: class attr/method declarations + prelude source (imports and inline functions)"""
    tree = parse(path, root)
    decls = ModuleDecls()
    tr = Tr(decls, pxd=True)
    tr.st(tree.body, 0)
    # keep only module-level import lines and function definitions; class bodies with only declarations
    # come out as 'class X(B):' + pass-like content which must not shadow the pyx definition -> drop classes
    lines = tr.out
    keep = []
    i = 0
    while i < len(lines):
        ln = lines[i]
        if ln.startswith('class ') or (ln.startswith('@') and i + 1 < len(lines) and lines[i + 1].startswith('class ')):
            i += 1
            while i < len(lines) and (lines[i].startswith('    ') or not lines[i].strip()):
                i += 1
            continue
        keep.append(ln)
        i += 1
    decls.prelude = keep
    return decls


def translate(path, root='/repo/'):
    """translate a .pyx (merging its .pxd) or a stand-alone .pxd; returns python source text"""
    decls = None
    pxd = path[:-4] + '.pxd' if path.endswith('.pyx') else None
    prelude = []
    if pxd and os.path.exists(pxd):
        decls = translate_pxd(pxd, root)
        prelude = decls.prelude
    if path.endswith('.pxd'):
        decls = translate_pxd(path, root)
        return '\n'.join(decls.prelude) + '\n'
    tree = parse(path, root)
    tr = Tr(decls)
    body = tr.module(tree)
    return '\n'.join(prelude) + ('\n' if prelude else '') + body

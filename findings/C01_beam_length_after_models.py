# attach emission models, then change the beam length / width: the bounding geometry must follow
from raysect.core import World, Vector3D, translate
from raysect.primitive import Cylinder
from cherab.core import Beam
from cherab.core.atomic import AtomicData, BeamStoppingRate, deuterium, Line, carbon
from cherab.core.model import SingleRayAttenuator, BeamCXLine
from cherab.tools.plasmas.slab import build_constant_slab_plasma
class Rate(BeamStoppingRate):
    def evaluate(self, e, n, t): return 1e-13
class AD(AtomicData):
    def beam_stopping_rate(self, b, p, c): return Rate()
w = World()
plasma = build_constant_slab_plasma(length=1, width=1, height=1, electron_density=1e19, electron_temperature=1e3,
                                    plasma_species=[(deuterium, 1, 1e19, 1e3, Vector3D(0, 0, 0))])
plasma.atomic_data = AD(); plasma.parent = w
beam = Beam(parent=w)
beam.atomic_data = AD(); beam.plasma = plasma; beam.attenuator = SingleRayAttenuator()
beam.energy = 50000; beam.power = 1e6; beam.temperature = 10; beam.element = deuterium
beam.sigma = 0.1; beam.length = 1.0
beam.models = [BeamCXLine(Line(carbon, 5, (8, 7)))]
g = beam.children[0]; print('before', type(g).__name__, g.height, g.radius)
beam.length = 3.0; beam.sigma = 0.2
g = beam.children[0]; print('after ', type(g).__name__, g.height, g.radius)
assert abs(g.height - 3.0) < 1e-12 and abs(g.radius - beam.attenuator.clamp_sigma * 0.2) < 1e-12, 'stale bounding geometry'
print('OK')

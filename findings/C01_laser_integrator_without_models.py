from raysect.optical import World
from raysect.optical.material.emitter.inhomogeneous import NumericalIntegrator
from cherab.core.laser import Laser
from cherab.core.model.laser import UniformEnergyDensity
w = World()
l = Laser(parent=w)
l.laser_profile = UniformEnergyDensity(laser_length=1, laser_radius=0.01)
l.integrator = NumericalIntegrator(step=0.002)     # no models attached yet
print('OK', l.integrator.step)

from raysect.optical import World
from raysect.optical.material import NullMaterial
from cherab.core.laser import Laser
from cherab.core.model.laser import UniformEnergyDensity, ConstantSpectrum, SeldenMatobaThomsonSpectrum
from cherab.tools.plasmas.slab import build_constant_slab_plasma
w = World()
plasma = build_constant_slab_plasma(length=1, width=1, height=1, electron_density=1e19, electron_temperature=1e3, plasma_species=[])
plasma.parent = w
def scene(with_models_then_clear):
    l = Laser(parent=w)
    l.plasma = plasma
    l.laser_profile = UniformEnergyDensity(laser_length=1, laser_radius=0.01)
    l.laser_spectrum = ConstantSpectrum(1059, 1061, 1)
    if with_models_then_clear:
        l.models = [SeldenMatobaThomsonSpectrum()]
        l.models = []
    return l
a, b = scene(True), scene(False)
ma = [type(g.material).__name__ for g in a.get_geometry()]
mb = [type(g.material).__name__ for g in b.get_geometry()]
print('history (models set, then cleared):', ma)
print('from scratch (no models):          ', mb)
assert ma == mb, 'stale emitting material after clearing the models'
print('OK')

# unresolved ADF11 file with a single density line (n_ne <= 8) whose first log10 temperature is negative (Te < 1 eV)
from cherab.core.atomic import hydrogen
from cherab.openadas.parse import parse_adf11
lines = [
"    1    3    2    1    1     /HYDROGEN           /GCR PROJECT",
"-" * 80,
"   7.69897   8.00000   8.30103",
"  -0.69897   0.00000",
"--------------------/ IPRT= 1  / IGRD= 1  /--------/ Z1= 1   / DATE= 04/03/99",
"  -7.94589  -7.94600  -7.94700",
"  -7.84589  -7.84600  -7.84700",
"C" + "-" * 79,
"C",
]
open('scd_demo.dat', 'w').write("\n".join(lines) + "\n")
r = parse_adf11(hydrogen, 'scd_demo.dat')
d = r[hydrogen][1]
print('ne', d['ne'], 'te', d['te'], 'rates shape', d['rates'].shape)
assert list(d['ne']) == [7.69897, 8.0, 8.30103] and list(d['te']) == [-0.69897, 0.0], 'axes mis-read'
print('OK')

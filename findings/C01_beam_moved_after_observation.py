import numpy as np
from raysect.core import World, Vector3D, translate
from cherab.core import Beam
from cherab.core.atomic import AtomicData, BeamStoppingRate, deuterium
from cherab.tools.plasmas.slab import build_constant_slab_plasma
from cherab.core.model import SingleRayAttenuator

class Rate(BeamStoppingRate):
    def __init__(self, v): self.value = v
    def evaluate(self, e, n, t): return self.value
class AD(AtomicData):
    def beam_stopping_rate(self, b, p, c): return Rate(1e-13)

def scene(beam_x):
    w = World()
    plasma = build_constant_slab_plasma(length=1, width=1, height=1, electron_density=1e19, electron_temperature=1e3,
                                        plasma_species=[(deuterium, 1, 1e19, 1e3, Vector3D(0, 0, 0))])
    from cherab.core import Species, Maxwellian
    from scipy.constants import atomic_mass
    dens = lambda x, y, z: 1e19 if abs(x) < 1 else 0.0
    plasma.composition = [Species(deuterium, 1, Maxwellian(dens, 1e3, Vector3D(0, 0, 0), deuterium.atomic_weight * atomic_mass))]
    plasma.atomic_data = AD(); plasma.parent = w
    beam = Beam(transform=translate(beam_x, 0, 0))
    beam.atomic_data = AD(); beam.plasma = plasma
    beam.attenuator = SingleRayAttenuator(clamp_to_zero=True)
    beam.energy = 50000; beam.power = 1e6; beam.temperature = 10; beam.element = deuterium
    beam.parent = w; beam.sigma = 0.2; beam.divergence_x = 1.; beam.divergence_y = 2.; beam.length = 10.
    return w, plasma, beam

# slab plasma occupies x in [0, 1] (density 1e19 inside, 0 outside?)  -> beam at x=0.5 is attenuated, beam at x=5 is not
w, p, b = scene(0.5)
d_in = b.density(0, 0, 0.8)
b.transform = translate(5.0, 0, 0)      # move the beam out of the plasma AFTER an observation
d_moved = b.density(0, 0, 0.8)
w2, p2, b2 = scene(5.0)
d_fresh = b2.density(0, 0, 0.8)
print('inside', d_in, 'moved', d_moved, 'fresh at final position', d_fresh)
print('STALE' if abs(d_moved - d_fresh) > 1e-6 * d_fresh else 'consistent')
